package main

import (
	"fmt"
	"regexp"
	"strings"
	"unicode/utf8"

	distiller "github.com/markusmobius/go-domdistiller"
	"golang.org/x/net/html"
)

// C15 — title comes from the page, is never invented, and is not repeated.

var rxTitleTok = regexp.MustCompile(`t\d+x|ж\d+щ|h\d+y|g\d+y|M[OSI]\d+y`)

var titleSeps = []string{" | ", " - ", " / ", " \\ ", " &gt; ", " &raquo; ", ": ", ":", " : ", "-", "|", " &mdash; ", " &middot; ", ", "}

var entityRepl = strings.NewReplacer("&gt;", ">", "&raquo;", "»", "&mdash;", "—", "&middot;", "·", "&amp;", "&")
var entityBack = strings.NewReplacer("&", "&amp;", ">", "&gt;", "»", "&raquo;", "—", "&mdash;", "·", "&middot;")

type titleDoc struct {
	TitleHTML     string // as written in <title> (ASCII, entities)
	T0            string // whitespace-normalised text of <title>
	H1            string // text of the first <h1>, "" if none
	H2            string
	Markup        string // markup title, "" if none
	MarkupSrc     string
	HasSep        bool
	NonASCII      bool // the title has non-ASCII letters: delivered as a parsed tree
	TemplateDecoy bool // a <template> with a title and an h1 precedes the content
	TitleInBody   bool // the <title> element ends up in the body
	SVGTitle      bool // an inline <svg> with a <title> child precedes the content
	OptOut        bool // the page carries the IE_RM_OFF tag: MarkupInfo supplies nothing
	TitleAttr     string // attributes written on the <title> element (it is never displayed anyway)
	H1Noscript    int    // 1, 2: the first <h1> carries a <noscript> image fallback before / after its text
	Spec          string
}

func (td *titleDoc) build(extraBlock string) string {
	var sb strings.Builder
	if td.TitleHTML == "" && td.SVGTitle {
		// a page without <title>; the first element called "title" is the tooltip of an inline picture
		sb.WriteString("<html><head>")
	} else if td.TitleInBody {
		// the <title> is not where it belongs: written in the body, or pushed there by stray content in front of the head
		sb.WriteString("<html><head>")
	} else {
		sb.WriteString("<html><head><title" + td.TitleAttr + ">" + td.TitleHTML + "</title>")
	}
	if td.OptOut {
		sb.WriteString(`<meta name="IE_RM_OFF" content="true">`)
	}
	switch td.MarkupSrc {
	case "og":
		sb.WriteString(`<meta property="og:title" content="` + td.Markup + `"><meta property="og:type" content="article"><meta property="og:url" content="http://og.example/x"><meta property="og:image" content="http://og.example/i.png">`)
	case "ie":
		sb.WriteString(`<meta name="title" content="` + td.Markup + `">`)
	}
	sb.WriteString("</head><body>")
	if td.TemplateDecoy {
		// a client-side template in front of the content: inert
		sb.WriteString(`<template><title>{{ page.title }} decoy words here</title><h1>{{ item.heading }} of the template</h1></template>`)
	}
	if td.TitleInBody && !(td.TitleHTML == "" && td.SVGTitle) {
		sb.WriteString("<title" + td.TitleAttr + ">" + td.TitleHTML + "</title>")
	}
	if td.SVGTitle {
		sb.WriteString(`<svg width="20" height="20"><title>s1v s2v s3v s4v</title><circle r="5"></circle></svg>`)
	}
	if td.MarkupSrc == "so" {
		sb.WriteString(`<div itemscope itemtype="http://schema.org/Article"><meta itemprop="headline" content="` + td.Markup + `"></div>`)
	}
	if td.H1 != "" {
		switch td.H1Noscript {
		case 1: // a lazily loaded logo with its fallback for readers without scripting
			sb.WriteString(`<h1><img class="lazy" data-src="/logo.png" alt=""><noscript><img src="/logo.png" alt=""></noscript> ` + entityBack.Replace(td.H1) + "</h1>")
		case 2:
			sb.WriteString("<h1>" + entityBack.Replace(td.H1) + ` <noscript><img src="/pixel.gif" alt=""></noscript></h1>`)
		default:
			sb.WriteString("<h1>" + entityBack.Replace(td.H1) + "</h1>")
		}
	}
	sb.WriteString("<p>" + bodyWords("a", 60) + "</p>")
	if td.H2 != "" {
		sb.WriteString("<h2>" + entityBack.Replace(td.H2) + "</h2>")
	}
	sb.WriteString(extraBlock)
	sb.WriteString("<p>" + bodyWords("b", 60) + "</p><p>" + bodyWords("c", 40) + "</p></body></html>")
	return sb.String()
}

func bodyWords(pfx string, n int) string {
	var sb strings.Builder
	for i := 0; i < n; i++ {
		fmt.Fprintf(&sb, "%s%dk ", pfx, i)
	}
	return sb.String()
}

func genTitle(r *RNG) *titleDoc {
	td := &titleDoc{NonASCII: r.Intn(4) == 0}
	nparts := 1 + r.Intn(4)
	var sb strings.Builder
	for p := 0; p < nparts; p++ {
		if p > 0 {
			sb.WriteString(titleSeps[r.Intn(len(titleSeps))])
			td.HasSep = true
		}
		k := 1 + r.Intn(7)
		if r.Intn(15) == 0 {
			k = 20 + r.Intn(25)
		}
		for j := 0; j < k; j++ {
			if j > 0 {
				sb.WriteString(strings.Repeat(" ", 1+r.Intn(2)))
			}
			if td.NonASCII {
				// Cyrillic words: more bytes than characters
				fmt.Fprintf(&sb, "%sж%dщ%s", strings.Repeat("и", r.Intn(4)), r.Intn(100000), strings.Repeat("я", r.Intn(4)))
			} else {
				fmt.Fprintf(&sb, "t%dx", r.Intn(100000))
			}
			// apostrophes and sentence punctuation inside / after words
			switch r.Intn(16) {
			case 14: // punctuation that stands apart from the word before it
				if !td.NonASCII {
					sb.WriteString([]string{" ?", " !", " ...", " .NET", " ;)"}[r.Intn(5)])
				}
			case 0:
				sb.WriteString("'s")
			case 1:
				if j == k-1 {
					sb.WriteString([]string{"?", "!", ".", "..."}[r.Intn(4)])
				}
			case 2:
				sb.WriteString("n't")
			}
		}
	}
	if r.Intn(30) == 0 {
		sb.Reset() // empty title
	}
	if r.Intn(8) == 0 {
		// a site-wide title that many pages share (too short to be kept: the first <h1> decides)
		sb.Reset()
		sb.WriteString([]string{"ACME Blog", "News", "Home", "t7x t8x"}[r.Intn(4)])
		td.HasSep = false
	}
	td.TitleHTML = sb.String()
	td.SVGTitle = r.Intn(6) == 0
	td.TitleInBody = r.Intn(8) == 0
	td.TemplateDecoy = r.Intn(6) == 0
	td.T0 = strings.Join(strings.Fields(entityRepl.Replace(td.TitleHTML)), " ")
	mk := func(p string, n int) string {
		var w []string
		for i := 0; i < n; i++ {
			w = append(w, fmt.Sprintf("%s%dy", p, r.Intn(100000)))
		}
		return strings.Join(w, " ")
	}
	switch r.Intn(4) {
	case 0:
		td.H1 = mk("h", 2+r.Intn(6))
	case 1:
		td.H1 = td.T0
	case 2:
		// the part a site-name stripper would keep
		if i := strings.Index(td.T0, " - "); i > 0 {
			td.H1 = td.T0[:i]
		} else {
			td.H1 = mk("h", 3)
		}
	}
	if r.Intn(3) == 0 {
		td.H2 = mk("g", 2+r.Intn(4))
		if r.Intn(3) == 0 && strings.Contains(td.T0, ": ") {
			td.H2 = td.T0
		}
	}
	pad := func(s string) string {
		// templates leave blanks and line breaks around values
		switch r.Intn(6) {
		case 0:
			return " " + s + " "
		case 1:
			return s + "\n"
		case 2:
			return "\n    " + s + "\n  "
		}
		return s
	}
	switch r.Intn(5) {
	case 0:
		td.MarkupSrc, td.Markup = "og", pad(mk("MO", 1+r.Intn(6)))
	case 1:
		td.MarkupSrc, td.Markup = "so", mk("MS", 1+r.Intn(6))
	case 2:
		td.MarkupSrc, td.Markup = "ie", pad(mk("MI", 1+r.Intn(6)))
	}
	td.OptOut = td.MarkupSrc != "" && r.Intn(6) == 0
	if r.Intn(10) == 0 {
		td.TitleAttr = []string{" hidden", ` style="display:none"`, ` aria-hidden="true"`, ` style="visibility:hidden"`, ` id="page-title"`}[r.Intn(5)]
	}
	if td.H1 != "" && r.Intn(5) == 0 {
		td.H1Noscript = 1 + r.Intn(2)
	}
	td.Spec = fmt.Sprintf("parts=%d sep=%v h1=%v h2=%v markup=%s optout=%v len=%d", nparts, td.HasSep, td.H1 != "", td.H2 != "", td.MarkupSrc, td.OptOut, utf8.RuneCountInString(td.T0))
	return td
}

func genTitleDoc(r *RNG) string { return genTitle(r).build("") }

func init() {
	register(&Prop{
		ID:   "C15",
		Rule: "titles of 1-4 parts of 1-45 unique tokens joined by 14 separators (| - / \\ > raquo colon variants, mdash, middot, comma; entities in bytes) x first <h1> in {none, unrelated, = title, = part before ' - '} x <h2> x markup title in {none, OpenGraph, schema.org, IE}. Clauses: (1) a markup title wins; (2) otherwise Title is the <title> text, a non-empty contiguous part of it, or the first <h1> text; (3) a 15..150 character <title> without any separator character is returned exactly; (4) two-step: the page is rebuilt with an extra <h1>/<h2>/<p>/<div> block whose text is exactly the Title learnt in step one, and if Title is unchanged none of that block's words may occur in Text or HTML. Non-trivial = a page with a non-empty title; distinct = distinct (title shape, which clause decided, block kind).",
		Assumptions: []string{
			"'separator pattern' is read conservatively for clause 3: the title contains none of the characters | - / \\ > raquo :",
			"on pages with an IE_RM_OFF tag MarkupInfo supplies no title, so clause 2 applies",
			"the repeated block has the title's words in identical letter case; white space (blanks, line breaks in the source, <br>) and inline markup (drop cap, em, a link around the text) vary",
		},
		N: func(tier string) int {
			if tier == "quick" {
				return 30000
			}
			return 300000
		},
		Floors: func(tier string) map[string]int64 {
			return map[string]int64{"clause1_markup_title": 1000, "clause2_from_title_exact": 500, "clause2_from_title_part": 300, "clause2_from_h1": 20, "clause3_exact_required": 100, "clause4_repeat_suppressed": 3000}
		},
		Run: runC15,
	})
}

var rxWordPunct = regexp.MustCompile(`([\pL\pN]+)['’,.?!]`)

func runC15(c *Ctx, idx int) {
	r := c.RNG(idx, 1)
	td := genTitle(r)
	src := td.build("")
	c.SetInput(func() any { return map[string]any{"html": src} })
	run := func(doc string) callResult {
		if td.NonASCII {
			// non-ASCII reaches the distiller through a parsed tree (dom.Parse guesses charsets)
			return c.apply(parseHTML(doc), nil)
		}
		return c.applyReader(doc, nil)
	}
	cr := run(src)
	if !c.usable(cr) {
		return
	}
	if td.NonASCII {
		c.Inc("non_ascii_titles")
	}
	T := cr.Res.Title
	M := cr.Res.MarkupInfo.Title
	wit := func(extra map[string]any) map[string]any {
		w := map[string]any{"html": src, "title_text": td.T0, "h1": td.H1, "markup_title": td.Markup, "got_title": T}
		for k, v := range extra {
			w[k] = v
		}
		return w
	}
	decided := ""
	if td.Markup != "" && M != td.Markup {
		// MarkupInfo is C14's business; clause 1 is stated on MarkupInfo.Title
		c.Inc("markup_title_not_reported")
	}
	switch {
	case M != "":
		if T != M {
			c.Violation("markup-title-ignored:"+td.MarkupSrc, fmt.Sprintf("MarkupInfo.Title=%q but Result.Title=%q", M, T), wit(nil))
			return
		}
		c.Inc("clause1_markup_title")
		decided = "markup"
	case T == td.T0:
		c.Inc("clause2_from_title_exact")
		decided = "exact"
	case T != "" && strings.Contains(td.T0, T):
		c.Inc("clause2_from_title_part")
		decided = "part"
	case td.H1 != "" && T == td.H1:
		c.Inc("clause2_from_h1")
		decided = "h1"
	default:
		c.Violation("title-not-from-page", fmt.Sprintf("Title=%q is neither the <title> text %q, a contiguous part of it, nor the first <h1> %q", T, td.T0, td.H1), wit(nil))
		return
	}
	L := utf8.RuneCountInString(td.T0)
	if M == "" && L >= 15 && L <= 150 && !strings.ContainsAny(td.T0, "|-/\\>»:") {
		c.Inc("clause3_exact_required")
		if T != td.T0 {
			c.Violation("title-not-exact", fmt.Sprintf("<title> %q is %d characters long and has no separator, but Title=%q", td.T0, L, T), wit(nil))
			return
		}
	}
	// clause 4: a word of the title may occur in the output at most as often
	// as it occurs in blocks whose text is NOT the title.
	if T != "" {
		tag := []string{"h1", "h2", "p", "div", "h3"}[idx%5]
		inner := entityBack.Replace(T)
		switch idx / 5 % 10 {
		case 8: // a link around a word that is directly followed by punctuation or an apostrophe
			if m := rxWordPunct.FindStringSubmatchIndex(T); m != nil && !strings.ContainsAny(T[:m[3]], "&<>") {
				inner = entityBack.Replace(T[:m[2]]) + `<a href="/topic">` + entityBack.Replace(T[m[2]:m[3]]) + `</a>` + entityBack.Replace(T[m[3]:])
			}
		case 9: // a link around one word in the middle
			if i := strings.Index(T, " "); i > 0 {
				if j := strings.Index(T[i+1:], " "); j > 0 {
					inner = entityBack.Replace(T[:i+1]) + `<a href="/topic">` + entityBack.Replace(T[i+1:i+1+j]) + `</a>` + entityBack.Replace(T[i+1+j:])
				}
			}
		case 4: // the text wraps over two source lines
			if i := strings.Index(T, " "); i > 0 {
				inner = entityBack.Replace(T[:i]) + "\n      " + entityBack.Replace(T[i+1:])
			}
		case 5: // two blanks between two words
			if i := strings.LastIndex(T, " "); i > 0 {
				inner = entityBack.Replace(T[:i]) + "  " + entityBack.Replace(T[i+1:])
			}
		case 6: // a line break element between two words
			if i := strings.Index(T, " "); i > 0 {
				inner = entityBack.Replace(T[:i]) + "<br>" + entityBack.Replace(T[i+1:])
			}
		case 7: // the heading is a link
			inner = `<a href="/story/permalink">` + inner + `</a>`
		case 1: // drop cap: the first letter sits in its own inline element
			if rs := []rune(T); len(rs) > 2 && rs[0] < 128 && rs[0] != '&' && rs[0] != '<' {
				inner = "<span>" + string(rs[0]) + "</span>" + entityBack.Replace(string(rs[1:]))
			}
		case 2: // inline markup around the first word
			if i := strings.Index(T, " "); i > 0 {
				inner = "<em>" + entityBack.Replace(T[:i]) + "</em>" + entityBack.Replace(T[i:])
			}
		case 3: // a word split in the middle by an inline element
			if rs := []rune(T); len(rs) > 6 && !strings.ContainsAny(string(rs[:4]), "&< ") {
				inner = entityBack.Replace(string(rs[:2])) + "<b>" + entityBack.Replace(string(rs[2:4])) + "</b>" + entityBack.Replace(string(rs[4:]))
			}
		}
		block := "<" + tag + ">" + inner + "</" + tag + ">"
		src2 := td.build(block)
		c.SetInput(func() any { return map[string]any{"html": src2} })
		cr2 := run(src2)
		if !c.usable(cr2) {
			return
		}
		if cr2.Res.Title != T {
			c.Inc("clause4_title_changed_by_rebuild(skipped)")
		} else {
			allowed := map[string]int{}
			bodyTitle := ""
			if td.TitleInBody {
				bodyTitle = td.T0 // a <title> element in the body is a block of the page like any other
			}
			for _, b := range []string{td.H1, td.H2, bodyTitle, T} {
				if b == "" || b == T {
					continue
				}
				for _, w := range rxTitleTok.FindAllString(b, -1) {
					allowed[w]++
				}
			}
			count := func(toks []string) map[string]int {
				m := map[string]int{}
				for _, w := range toks {
					m[w]++
				}
				return m
			}
			inText := count(rxTitleTok.FindAllString(cr2.Res.Text, -1))
			var htmlToks []string
			walk(cr2.Res.Node, func(n *html.Node) bool {
				if n.Type == html.TextNode {
					htmlToks = append(htmlToks, rxTitleTok.FindAllString(n.Data, -1)...)
				}
				return true
			})
			inHTML := count(htmlToks)
			for _, w := range rxTitleTok.FindAllString(T, -1) {
				if inText[w] > allowed[w] || inHTML[w] > allowed[w] {
					c.Violation("title-repeated:"+tag+":"+decided, fmt.Sprintf("a block whose text is exactly the title %q is emitted again in the content: word %s occurs %d times in Text / %d times in HTML but only %d times in blocks that are not the title", T, w, inText[w], inHTML[w], allowed[w]),
						map[string]any{"html": src2, "title": T, "word": w, "result_text": trunc(cr2.Res.Text, 1500)})
					return
				}
			}
			c.Inc("clause4_repeat_suppressed")
			if td.H1 == T {
				c.Inc("clause4_original_h1_is_title")
			}
		}
		c.Sig(fmt.Sprintf("%s|%s|%s", td.Spec, decided, tag))
	}
	c.Sample(func() any { return wit(map[string]any{"case": idx, "decided_by": decided}) })
}

var _ = distiller.PrevNext
