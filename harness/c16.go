package main

import (
	"fmt"
	nurl "net/url"
	"strings"

	"github.com/go-shiori/dom"
	distiller "github.com/markusmobius/go-domdistiller"
	"golang.org/x/net/html"
)

// C16 — pagination links are real, same-site, fetchable URLs.

func init() {
	register(&Prop{
		ID:   "C16",
		Rule: "hostile G-pager documents (numbered pagers over 9 URL families with hrefs drawn from 30 dangerous shapes: javascript:, empty, #, mailto:, off-site, look-alike host, userinfo host, other port, other scheme, scheme-relative, malformed, relative, upper-case; gaps, duplicates, descending and calendar-like runs, decorated labels, Next/Prev anchors) x 15 page URLs (query, path, suffix, trailing slash, fragment, userinfo, port, upper-case host) x both algorithms. Every non-empty NextPage/PrevPage must parse, be http(s), have the page's host, and be canonically equal to the resolution against the real page URL of some a[href] of the document. Non-trivial = a non-empty pagination link; distinct = distinct (algorithm, side, page URL, link family shape).",
		Assumptions: []string{
			"canonical form: lower-case scheme and host, path without trailing slashes, raw query; fragment ignored",
			"the anchor set is computed by the harness on the same parsed tree, resolving every href against the page URL as given",
		},
		N: func(tier string) int {
			if tier == "quick" {
				return 60000
			}
			return 1000000
		},
		Floors: func(tier string) map[string]int64 {
			return map[string]int64{"links_checked": 5000, "algo0_nonempty": 1000, "algo1_nonempty": 1000}
		},
		Run: runC16,
	})
}

// escapeForParse percent-encodes the characters that may not stand in a URL as they are
// (blank, non-ASCII, quotes ...), so that net/url keeps the escapes the page wrote
// (otherwise it re-encodes the whole path from its decoded form and %2F becomes /).
func escapeForParse(s string) string {
	var sb strings.Builder
	for i := 0; i < len(s); i++ {
		if c := s[i]; c <= ' ' || c >= 0x7f || strings.IndexByte("\"<>^`{|}", c) >= 0 {
			fmt.Fprintf(&sb, "%%%02X", c)
		} else {
			sb.WriteByte(c)
		}
	}
	return sb.String()
}

// asciiEqualFold: host names are case-insensitive in their ASCII letters only.
func asciiEqualFold(a, b string) bool {
	low := func(s string) string {
		x := []byte(s)
		for i, c := range x {
			if c >= 'A' && c <= 'Z' {
				x[i] = c + 32
			}
		}
		return string(x)
	}
	return low(a) == low(b)
}

func anchorSet(docSrc string, page *nurl.URL) map[string]bool {
	return anchorSetOf(parseHTML(docSrc), page)
}

// subRoots lists the elements below <body> that hold at least one anchor: each
// of them is a document Apply may be given (the root need not be the whole page).
func subRoots(doc *html.Node) []*html.Node {
	var out []*html.Node
	for _, e := range dom.GetElementsByTagName(doc, "*") {
		switch e.Data {
		case "html", "head", "body", "a":
			continue
		}
		if len(dom.GetElementsByTagName(e, "a")) > 0 {
			out = append(out, e)
		}
	}
	return out
}

func anchorSetOf(doc *html.Node, page *nurl.URL) map[string]bool {
	set := map[string]bool{}
	for _, a := range dom.GetElementsByTagName(doc, "a") {
		h := strings.Trim(dom.GetAttribute(a, "href"), " \t\n\f\r") // as HTML does for URL attributes
		ref, err := nurl.Parse(escapeForParse(h))
		if err != nil {
			continue
		}
		set[canonURL(page.ResolveReference(ref))] = true
	}
	return set
}

func (c *Ctx) checkPaginationLink(which, where, v string, algo distiller.PaginationAlgo, page *nurl.URL, anchors map[string]bool, wit func(extra map[string]any) map[string]any) bool {
	if v == "" {
		return true
	}
	c.Inc("links_checked")
	c.Inc(fmt.Sprintf("algo%d_nonempty", algo))
	pv, err := nurl.Parse(v)
	kind := ""
	switch {
	case err != nil:
		kind = "unparseable"
	case strings.ContainsAny(v, " \t\n\r\f"):
		kind = "white-space-in-url"
	case pv.Scheme != "http" && pv.Scheme != "https":
		kind = "scheme:" + pv.Scheme
	case pv.Hostname() == "":
		kind = "empty-host" // also "http://:80/..." (a port without a host name)
	case !asciiEqualFold(pv.Host, page.Host):
		kind = "off-site"
	case !anchors[canonURL(pv)]:
		kind = "not-an-anchor-target"
	}
	if kind == "" {
		return true
	}
	c.Violation(fmt.Sprintf("%s:algo%d:%s%s", kind, algo, which, where), fmt.Sprintf("%sPage=%q (algorithm %d, page URL %s%s): %s", which, v, algo, page, where, kind),
		wit(map[string]any{"which": which, "value": v, "algorithm": int(algo), "kind": kind}))
	return false
}

func runC16(c *Ctx, idx int) {
	r := c.RNG(idx, 1)
	pg := genPager(r, true)
	page := mustURL(pg.PageURL)
	anchors := anchorSet(pg.HTML, page)
	wit := func(extra map[string]any) map[string]any {
		w := map[string]any{"html": pg.HTML, "page_url": pg.PageURL}
		for k, v := range extra {
			w[k] = v
		}
		return w
	}
	// one case in four hands Apply an element of the page instead of the page:
	// then only the anchors below that element are "present in the document"
	subRoot, where := -1, ""
	if idx%4 == 3 {
		if roots := subRoots(parseHTML(pg.HTML)); len(roots) > 0 {
			subRoot = r.Intn(len(roots))
			root := roots[subRoot]
			anchors = anchorSetOf(root, page)
			extra := map[string]any{"root": "element " + fmt.Sprint(subRoot) + " of those below <body> that hold an anchor (document order): " + trunc(outer(root), 300)}
			inner := wit
			wit = func(e map[string]any) map[string]any {
				w := inner(e)
				for k, v := range extra {
					w[k] = v
				}
				return w
			}
			where = ":element-root"
			c.Inc("element_root_cases")
		}
	}
	c.SetInput(func() any { return wit(nil) })
	for _, algo := range []distiller.PaginationAlgo{distiller.PrevNext, distiller.PageNumber} {
		var cr callResult
		if subRoot >= 0 {
			cr = c.apply(subRoots(parseHTML(pg.HTML))[subRoot], &distiller.Options{OriginalURL: page, PaginationAlgo: algo})
		} else {
			cr = c.applyVariant(pg.HTML, &distiller.Options{OriginalURL: page, PaginationAlgo: algo}, idx)
		}
		if !c.usable(cr) {
			continue
		}
		pi := cr.Res.PaginationInfo
		if !c.checkPaginationLink("Next", where, pi.NextPage, algo, page, anchors, wit) || !c.checkPaginationLink("Prev", where, pi.PrevPage, algo, page, anchors, wit) {
			return
		}
		if pi.NextPage != "" || pi.PrevPage != "" {
			c.Sig(fmt.Sprintf("%d|%v|%v|%s", algo, pi.NextPage != "", pi.PrevPage != "", pg.PageURL))
		} else {
			c.Inc("both_empty")
		}
	}
	c.Sample(func() any { return map[string]any{"case": idx, "page_url": pg.PageURL, "html": trunc(pg.HTML, 1500)} })
}
