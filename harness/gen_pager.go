package main

import (
	"fmt"
	nurl "net/url"
	"regexp"
	"strings"
)

// G-pager: numbered pagers, conventional (C17) and hostile (C16, C01, C11).

type Pager struct {
	HTML    string
	PageURL string
	Desc    string
	// conventional pagers only
	N, K     int
	Family   string
	WantNext string // canonical form, "" if none
	WantPrev string
	HasNext  bool // a labelled Next anchor exists (prev/next variant)
	HasPrev  bool
}

func canonURL(u *nurl.URL) string {
	// the escaped path: /a%2Fb and /a/b are different resources
	p := rxPctHex.ReplaceAllStringFunc(u.EscapedPath(), strings.ToUpper)
	if u.RawQuery == "" {
		p = strings.TrimRight(p, "/") // /a/ and /a are taken for the same page; /a/?x and /a?x are not
	}
	return strings.ToLower(u.Scheme) + "://" + strings.ToLower(u.Host) + "|" + p + "|" + u.RawQuery
}

var rxPctHex = regexp.MustCompile(`%[0-9a-fA-F]{2}`)

func canonStr(s string) string {
	u, err := nurl.Parse(s)
	if err != nil {
		return "unparseable:" + s
	}
	return canonURL(u)
}

func fillerWords(r *RNG, n int) string {
	var sb strings.Builder
	for i := 0; i < n; i++ {
		fmt.Fprintf(&sb, "lorem%d ", r.Intn(500))
	}
	return sb.String()
}

// ---------------------------------------------------------------------------
// conventional pagers

var pagerFamilies = []string{"query", "query2", "path", "path2", "suffix", "suffix2", "dated-suffix", "dated-page", "dir-html", "slash-query", "dated-slug"}

var pagerOrigins = []string{"http://example.com", "https://example.com", "http://mirror.example.org", "https://www.example.com:8443"}

// famPath returns the absolute path+query of page i; slash adds a trailing slash (path families).
func famPath(fam string, i int, slash bool) string {
	s := ""
	if slash {
		s = "/"
	}
	switch fam {
	case "query":
		return fmt.Sprintf("/story/alpha?page=%d", i)
	case "query2":
		return fmt.Sprintf("/story/alpha?id=77&page=%d", i)
	case "path":
		return fmt.Sprintf("/story/alpha/page/%d%s", i, s)
	case "path2":
		return fmt.Sprintf("/story/alpha/%d%s", i, s)
	case "suffix":
		return fmt.Sprintf("/story/alpha-%d.html", i)
	case "dated-suffix": // page number inside a component, under a dated directory
		return fmt.Sprintf("/story/2014/07/alpha-%d.html", i)
	case "dated-page":
		return fmt.Sprintf("/story/2014/07/alpha_Page%d.html", i)
	case "dated-slug": // no file extension: the page number ends a component under a dated directory
		return fmt.Sprintf("/story/2014/07/alpha-page-%d", i)
	case "dir-html": // every page in a directory of its own
		return fmt.Sprintf("/story/%d/alpha.html", i)
	case "slash-query": // the path ends with a slash, the page number is in the query
		return fmt.Sprintf("/story/alpha/?page=%d", i)
	default:
		return fmt.Sprintf("/story/alpha_p%d.html", i)
	}
}

func famAllowsSlash(fam string) bool { return fam == "path" || fam == "path2" }

// famHref renders the link to page i in the given href form, as seen from page k.
func famHref(origin, fam string, i int, slash bool, form string) string {
	abs := famPath(fam, i, slash)
	switch form {
	case "abs":
		return origin + abs
	case "root":
		return abs
	default: // relative to the page
		switch fam {
		case "query":
			return fmt.Sprintf("?page=%d", i)
		case "query2":
			return fmt.Sprintf("?id=77&page=%d", i)
		case "path", "path2":
			if slash {
				return fmt.Sprintf("../%d/", i)
			}
			return fmt.Sprintf("%d", i)
		case "suffix", "dated-suffix":
			return fmt.Sprintf("alpha-%d.html", i)
		case "dated-page":
			return fmt.Sprintf("alpha_Page%d.html", i)
		case "dated-slug":
			return fmt.Sprintf("alpha-page-%d", i)
		case "dir-html":
			return fmt.Sprintf("../%d/alpha.html", i)
		case "slash-query":
			return fmt.Sprintf("?page=%d", i)
		default:
			return fmt.Sprintf("alpha_p%d.html", i)
		}
	}
}

var hrefForms = []string{"abs", "root", "rel"}
var pagerSeps = []string{" ", " | ", "</li><li>", ", ", "; ", " - "}

type pagerSpec struct {
	Fam      string
	N, K     int
	Form     string
	Slash    bool
	Sep      int
	Deco     int // 0 plain, 1 strong, 2 span.current, 3 [k]
	Wrap     int // 0 div, 1 nav, 2 p, 3 div.pagination>ul
	Noise    bool
	PrevNext bool
	Labels   int
	WithNums bool
	Origin   int
	Base     int  // 0 /story/alpha..., 1 /articles/story... (a URL with a word the prev/next scorer dislikes)
	Frag     bool // the page URL carries a #fragment
	HostCase bool // absolute links write the host name with a capital letter
}

// rebase moves a family URL (absolute, root-relative or relative) to the other base path.
func (sp pagerSpec) rebase(s string) string {
	if sp.Base == 0 {
		return s
	}
	return strings.ReplaceAll(strings.ReplaceAll(s, "/story/", "/articles/"), "alpha", "story")
}

var nextLabels = []string{"Next", "next", "Next &raquo;", "Next page", "NEXT", "Next &raquo;"}
var prevLabels = []string{"Prev", "Previous", "&laquo; Prev", "previous page", "PREV", "&laquo; Previous"}

func conventionalPager(sp pagerSpec, r *RNG) *Pager {
	pg := &Pager{N: sp.N, K: sp.K, Family: sp.Fam}
	origin := pagerOrigins[sp.Origin%len(pagerOrigins)]
	pg.PageURL = sp.rebase(origin + famPath(sp.Fam, sp.K, sp.Slash))
	if sp.Frag {
		pg.PageURL += "#comments"
	}
	page := mustURL(pg.PageURL)
	famHref := func(origin, fam string, i int, slash bool, form string) string {
		if sp.HostCase && form == "abs" {
			// host names are case-insensitive
			if j := strings.Index(origin, "://"); j > 0 {
				origin = origin[:j+3] + strings.ToUpper(origin[j+3:j+4]) + origin[j+4:]
			}
		}
		return sp.rebase(famHref(origin, fam, i, slash, form))
	}
	resolve := func(i int) string {
		ref, _ := nurl.Parse(famHref(origin, sp.Fam, i, sp.Slash, sp.Form))
		return canonURL(page.ResolveReference(ref))
	}
	var parts []string
	if sp.PrevNext && sp.K > 1 {
		parts = append(parts, fmt.Sprintf(`<a href="%s">%s</a>`, famHref(origin, sp.Fam, sp.K-1, sp.Slash, sp.Form), prevLabels[sp.Labels]))
		pg.HasPrev = true
	}
	if !sp.PrevNext || sp.WithNums {
		for i := 1; i <= sp.N; i++ {
			if i == sp.K {
				switch sp.Deco {
				case 0:
					parts = append(parts, fmt.Sprintf("%d", i))
				case 1:
					parts = append(parts, fmt.Sprintf("<strong>%d</strong>", i))
				case 3:
					parts = append(parts, fmt.Sprintf("[%d]", i))
				case 4: // a note for screen readers, not rendered
					parts = append(parts, fmt.Sprintf(`<span class="current">%d <span hidden>(current)</span></span>`, i))
				case 5:
					parts = append(parts, fmt.Sprintf(`%d<span style="display:none"> current page</span>`, i))
				default:
					parts = append(parts, fmt.Sprintf(`<span class="current">%d</span>`, i))
				}
			} else {
				parts = append(parts, fmt.Sprintf(`<a href="%s">%d</a>`, famHref(origin, sp.Fam, i, sp.Slash, sp.Form), i))
			}
		}
	}
	if sp.PrevNext && sp.K < sp.N {
		parts = append(parts, fmt.Sprintf(`<a href="%s">%s</a>`, famHref(origin, sp.Fam, sp.K+1, sp.Slash, sp.Form), nextLabels[sp.Labels]))
		pg.HasNext = true
	}
	body := strings.Join(parts, pagerSeps[sp.Sep])
	if sp.Sep == 2 {
		body = "<ul><li>" + body + "</li></ul>"
	}
	switch sp.Wrap {
	case 0:
		body = `<div class="pg">` + body + `</div>`
	case 1:
		body = `<nav>` + body + `</nav>`
	case 2:
		body = `<p>` + body + `</p>`
	case 4:
		body = `<div class="article-footer"><div class="pg">` + body + `</div></div>`
	case 5:
		body = `<div id="sidebar"><div>` + body + `</div></div>`
	default:
		body = `<div class="pagination" id="pager"><div>` + body + `</div></div>`
	}
	if sp.K < sp.N {
		pg.WantNext = resolve(sp.K + 1)
	}
	if sp.K > 1 {
		pg.WantPrev = resolve(sp.K - 1)
	}
	var sb strings.Builder
	sb.WriteString(`<html><head><title>T</title></head><body>`)
	if sp.Noise {
		sb.WriteString(`<div><a href="/">Home</a> <a href="/about">About</a></div><h1>Story alpha</h1>`)
	}
	sb.WriteString(`<p>` + fillerWords(r, 60+r.Intn(40)) + `</p>`)
	if sp.Noise {
		sb.WriteString(`<p>` + fillerWords(r, 30) + ` <a href="/other/story">related story</a> ` + fillerWords(r, 20) + `</p><img src="/img/a.png">`)
	}
	sb.WriteString(body)
	if sp.Noise {
		sb.WriteString(`<div><a href="/privacy">Privacy</a> <a href="/terms">Terms</a> &copy; Example</div>`)
	}
	sb.WriteString(`</body></html>`)
	pg.HTML = sb.String()
	pg.Desc = fmt.Sprintf("%+v", sp)
	return pg
}

// ---------------------------------------------------------------------------
// hostile pagers

var hostilePages = []string{
	"http://example.com/story/alpha?page=2", "http://example.com/story/alpha/page/2", "https://example.com/story/alpha-2.html",
	"http://example.com/story/alpha/2/", "http://example.com/story/alpha", "http://example.com/", "http://www.example.com/a/b/c?x=1&page=2#frag",
	"http://example.com/story/alpha/", "http://example.com/story/alpha/page/3/", "http://user@example.com/story/alpha?page=2",
	"http://EXAMPLE.com/story/alpha?id=77&page=5", "http://example.com:8080/story/alpha/page/2", "http://example.com/story/alpha?id=77&page=5",
	"http://example.com/2011/05/17/story-2/", "http://example.com/story/alpha_p2.html",
	"http://example.com/story", "http://example.com/story/", "http://example.com/st", "http://example.com/story/2b", "http://example.com/story/3-alpha",
	"http://example.com/story/alpha/2.html", "http://example.com/story/alpha/page2.html", "http://example.com/story/b",
	"http://example.com/caf%C3%A9/article", "http://example.com/a%20b/story?page=2", "http://example.com/caf%C3%A9/article/page/2/", "http://example.com/story/alpha%2Fbeta?page=1",
	"http://example.com", "http://example.com?page=2",
	// page URLs that are not web addresses: no link can be "an absolute http(s) URL on the same host"
	"/story/alpha/page/1", "http:///story/alpha/page/1", "file:///story/alpha/page/1", "story/alpha?page=1", "http://:80/story/alpha/page/2",
	"http://example.com/search?q=news/", "http://example.com/search?q=news/#top",
}

func hostileHref(r *RNG, n int, u *nurl.URL) string {
	host := u.Host
	switch r.Intn(33) {
	case 30:
		return []string{" ", "\n", "\t \n"}[n%3] // only white space: the empty reference, i.e. the page itself
	case 31:
		return fmt.Sprintf(" /story/alpha/page/%d\n", n) // white space around a URL is not part of it
	case 32:
		return fmt.Sprintf("\t?page=%d ", n)
	case 0:
		return fmt.Sprintf("javascript:go(%d)", n)
	case 1:
		return ""
	case 2:
		return "#"
	case 3:
		return fmt.Sprintf("mailto:p%d@example.com", n)
	case 4:
		return fmt.Sprintf("http://evil.example/story/alpha?page=%d", n)
	case 5:
		return fmt.Sprintf("ftp://%s/story/alpha/page/%d", host, n)
	case 6:
		return fmt.Sprintf("//%s/story/alpha?page=%d", host, n)
	case 7:
		return fmt.Sprintf("//evil.example/story/alpha?page=%d", n)
	case 8:
		return fmt.Sprintf("http://%s.evil.example/story/alpha/page/%d", host, n)
	case 9:
		return fmt.Sprintf("http://%s@evil.example/story/alpha/page/%d", host, n)
	case 10:
		return fmt.Sprintf("http://[bad/page/%d", n)
	case 11:
		return fmt.Sprintf("?page=%d", n)
	case 12:
		return fmt.Sprintf("page/%d", n)
	case 13:
		return fmt.Sprintf("/story/alpha-%d.html", n)
	case 14:
		return fmt.Sprintf("%s://%s/story/alpha?page=%d", u.Scheme, host, n)
	case 15:
		return fmt.Sprintf("%s://%s/story/alpha/page/%d/", u.Scheme, host, n)
	case 16:
		return fmt.Sprintf("%s://%s/story/alpha/%d", u.Scheme, host, n)
	case 17:
		return fmt.Sprintf("https://%s/story/alpha/page/%d", host, n)
	case 18:
		return fmt.Sprintf("%s://%s:8080/story/alpha/page/%d", u.Scheme, u.Hostname(), n)
	case 19:
		return fmt.Sprintf("../alpha/page/%d#c", n)
	case 20:
		if n%3 == 0 {
			return fmt.Sprintf("javascript://%s/story/alpha/page/%d", host, n)
		}
		return fmt.Sprintf("javascript:void(0);//page=%d", n)
	case 21:
		return fmt.Sprintf("file:///story/alpha/page/%d", n)
	case 22:
		return fmt.Sprintf("HTTP://%s/story/alpha/page/%d", strings.ToUpper(host), n)
	case 23:
		return fmt.Sprintf("%d", n)
	case 24:
		return fmt.Sprintf("./%d/", n)
	case 25:
		return fmt.Sprintf("/story/alpha?id=77&page=%d", n)
	case 26:
		return fmt.Sprintf("/story/alpha?page=%d&id=%d", n, 70+n)
	case 27:
		return fmt.Sprintf("/2011/05/%02d/story-%d/", n, n)
	case 28:
		return fmt.Sprintf("data:text/html,page%d", n)
	default:
		return fmt.Sprintf("/story/alpha/page/%d", n)
	}
}

const nHostileFams = 31

func famHostile(fam, n int, u *nurl.URL) string {
	host := u.Host
	switch fam % nHostileFams {
	case 0:
		return fmt.Sprintf("?page=%d", n)
	case 1:
		return fmt.Sprintf("/story/alpha/page/%d", n)
	case 2:
		return fmt.Sprintf("%s://%s/story/alpha-%d.html", u.Scheme, host, n)
	case 3:
		return fmt.Sprintf("%s://%s/story/alpha/%d/", u.Scheme, host, n)
	case 4:
		return fmt.Sprintf("/story/alpha?page=%d", n)
	case 5:
		return fmt.Sprintf("/a/b/c?x=1&page=%d", n)
	case 6:
		return fmt.Sprintf("/story/alpha?id=77&page=%d", n)
	case 7:
		return fmt.Sprintf("page/%d", n)
	case 8:
		return fmt.Sprintf("/story/%d/alpha/%d", 2000+n, n)
	// page number at the start of a path component, followed by a suffix
	case 9:
		return fmt.Sprintf("/ab/%db", n)
	case 10:
		return fmt.Sprintf("/story/%d-alpha", n)
	case 11:
		return fmt.Sprintf("/story/alpha/%d.html", n)
	case 12:
		return fmt.Sprintf("/story/%dory", n)
	// whole families on hosts / schemes that must never be returned
	case 13:
		return fmt.Sprintf("http://not%s/story/alpha/page/%d", host, n)
	case 14:
		return fmt.Sprintf("http://ads.%s/story/alpha/page/%d", host, n)
	case 15:
		return fmt.Sprintf("http://%s.evil.example/story/alpha/page/%d", host, n)
	case 16:
		return fmt.Sprintf("ftp://%s/story/alpha/page/%d", host, n)
	case 17:
		return fmt.Sprintf("%s://%s:8443/story/alpha/page/%d", u.Scheme, u.Hostname(), n)
	case 18:
		if n%2 == 0 {
			return fmt.Sprintf("javascript://%s/story/alpha/page/%d", host, n) // parses like a hierarchical URL
		}
		return fmt.Sprintf("javascript://%s/story/alpha/page/%d", host, n)
	case 19:
		return fmt.Sprintf("//%s/story/alpha/page/%d", strings.ToUpper(host), n)
	case 20:
		return fmt.Sprintf("page%d.html", n)
	// reserved characters percent-encoded in the path: decoding them names another resource
	// the page number in a middle path component: every page lives in a folder of its own,
	// so the links lie outside the folder of the page URL
	case 28: // an absolute link that is not fully escaped and has an escaped reserved character
		return fmt.Sprintf("%s://%s/tag/AC%%2FDC/caf\u00e9 bar/page/%d", u.Scheme, host, n)
	case 30: // the query of every link ends with a slash (a "back to" parameter after the page number)
		return fmt.Sprintf("/story/alpha?page=%d&from=/news/", n)
	case 29: // the query of the first page ends with a slash
		return fmt.Sprintf("/search?q=news/&page=%d", n)
	case 26:
		return fmt.Sprintf("/news/page/%d/index.html", n)
	case 27:
		return fmt.Sprintf("/archive/%d/list.html", n)
	case 22:
		return fmt.Sprintf("/tag/AC%%2FDC/page/%d", n)
	case 23:
		return fmt.Sprintf("/100%%25/page/%d", n)
	case 24:
		return fmt.Sprintf("/q%%3Fa/story%%23b/%d", n)
	case 25:
		return fmt.Sprintf("/a%%2Fb/story?page=%d", n)
	default:
		return fmt.Sprintf("/story/alpha/page/%d?ref=nav#top", n)
	}
}

// class / id values that mix the word lists of the prev/next scorer
var pagerWrapClasses = []string{"article-footer", "post-meta", "content-sidebar", "pagination", "pager", "page-nav", "comment-list", "related-posts", "story-tools", "widget", "footer", "main-content", "entry-meta", "blog-footer nav", "paging", "nav", "pages", "sidebar", "body-and-footer", "text-widget", "masthead", "", ""}

// genPager produces a random pager; hostile mixes in dangerous hrefs, gaps,
// duplicates, descending runs and calendar-like numbers.
// brLabel: a link text of 23..27 characters in which 1..3 line break elements stand
// between the first word and the rest (one character each when the text is read with
// its line breaks, one blank together when white space is collapsed).
func brLabel(r *RNG, first string) string {
	k := 1 + r.Intn(3)
	total := 23 + r.Intn(5)
	rest := "page of the whole long story here"
	n := total - len(first) - k
	if n < 1 {
		n = 1
	}
	return first + strings.Repeat("<br>", k) + strings.TrimSpace(rest[:n])
}

func genPager(r *RNG, hostile bool) *Pager {
	pu := hostilePages[r.Intn(len(hostilePages))]
	u := mustURL(pu)
	fam0, k0 := r.Intn(nHostileFams), 1+r.Intn(6)
	if hostile {
		// correlate the page URL with the link family of the first group: the
		// page itself (page k of the family) or the "folder" the family lives in
		base := mustURL("http://example.com/story/alpha")
		if ref, err := nurl.Parse(famHostile(fam0, k0, base)); err == nil {
			abs := base.ResolveReference(ref)
			if (abs.Scheme == "http" || abs.Scheme == "https") && abs.Host != "" {
				switch r.Intn(10) {
				case 0, 1, 2:
					pu = abs.String()
				case 3, 4, 5:
					abs.RawQuery, abs.Fragment = "", ""
					p := strings.TrimSuffix(abs.Path, "/")
					if i := strings.LastIndex(p, "/"); i > 0 {
						abs.Path = p[:i]
						if r.Intn(3) == 0 {
							abs.Path += "/"
						}
						pu = abs.String()
					}
				}
				u = mustURL(pu)
			}
		}
	}
	foldHost := ""
	if hostile && r.Intn(12) == 0 {
		// page hosts with runes whose lower-case form has another byte length; the links use the ASCII spelling
		h := [][2]string{{"\u212a\u212a.example", "kk.example"}, {"\u0130stanbul.example", "istanbul.example"}, {"\u017fite.example", "site.example"}, {"\u212aiosk.example", "kiosk.example"}}[r.Intn(4)]
		pu = "http://" + h[0] + "/story/alpha/page/2"
		if pp, err := nurl.Parse(pu); err == nil {
			u = pp
			foldHost = h[1]
		}
	}
	var sb strings.Builder
	sb.WriteString(`<html><head><title>T</title></head><body><p>` + fillerWords(r, 40+r.Intn(60)) + `</p>`)
	ngroups := 1
	if r.Intn(4) == 0 {
		ngroups = 2
	}
	for gi := 0; gi < ngroups; gi++ {
		nwrap := 0
		if hostile {
			nwrap = r.Intn(4)
		}
		for w := 0; w < nwrap; w++ {
			cls := pagerWrapClasses[r.Intn(len(pagerWrapClasses))]
			if r.Intn(2) == 0 {
				fmt.Fprintf(&sb, `<div class="%s">`, cls)
			} else {
				fmt.Fprintf(&sb, `<div id="%s" class="%s">`, cls, pagerWrapClasses[r.Intn(len(pagerWrapClasses))])
			}
		}
		sb.WriteString(`<div class="pagination">`)
		N := 2 + r.Intn(9)
		k := 1 + r.Intn(N)
		fam := r.Intn(9)
		fam2 := -1
		if hostile {
			fam = r.Intn(nHostileFams)
			if r.Intn(2) == 0 {
				fam = r.Intn(9) // the classic families, several of them with more than one numeric component
			}
			if r.Intn(8) == 0 {
				fam2 = r.Intn(9) // two families interleaved in one pager: equally good URL patterns
			}
			if gi == 0 && r.Intn(4) != 0 {
				fam = fam0
				if r.Intn(2) == 0 && k0 <= N {
					k = k0
				}
			}
		}
		firstElsewhere := hostile && r.Intn(5) == 0
		var nums []int
		for i := 1; i <= N; i++ {
			nums = append(nums, i)
		}
		if hostile {
			switch r.Intn(6) {
			case 0: // gap: 1 ... 4 5 6
				if N > 4 {
					nums = append([]int{1}, nums[3:]...)
				}
			case 1: // duplicated number
				nums = append(nums, nums[r.Intn(len(nums))])
			case 2: // descending
				for i, j := 0, len(nums)-1; i < j; i, j = i+1, j-1 {
					nums[i], nums[j] = nums[j], nums[i]
				}
			case 3: // calendar-like
				nums = nil
				for i := 1; i <= 28; i++ {
					nums = append(nums, i)
				}
				k = 1 + r.Intn(28)
			case 4: // far numbers: 1 2 3 4 5 32 33
				nums = append(nums, 30+r.Intn(5), 36)
			}
		}
		sep := []string{" ", " | ", " &middot; ", "</span><span>", "&nbsp;|&nbsp;", "&nbsp;", " &nbsp;&raquo;&nbsp; "}[r.Intn(7)]
		if r.Intn(6) == 0 {
			sb.WriteString("Page:&nbsp;")
		}
		for _, i := range nums {
			if i == k && r.Intn(4) != 0 {
				switch r.Intn(4) {
				case 0:
					fmt.Fprintf(&sb, "<b>%d</b>%s", i, sep)
				case 1:
					fmt.Fprintf(&sb, "[%d]%s", i, sep)
				default:
					fmt.Fprintf(&sb, "%d%s", i, sep)
				}
				continue
			}
			var h string
			if hostile && r.Intn(3) == 0 {
				h = hostileHref(r, i, u)
			} else if fam2 >= 0 && i%2 == 0 {
				h = famHostile(fam2, i, u)
			} else {
				h = famHostile(fam, i, u)
			}
			if foldHost != "" && r.Intn(2) == 0 {
				h = fmt.Sprintf("http://%s/%d", foldHost, i) // shorter than the page's own origin prefix
			}
			if i == 1 && firstElsewhere {
				h = "/index/start.html"
			}
			label := fmt.Sprintf("%d", i)
			if hostile && r.Intn(12) == 0 {
				label = []string{"<b>" + label + "</b>", label + ".", "[" + label + "]", "Page " + label, "&nbsp;" + label + "&nbsp;"}[r.Intn(5)]
			}
			fmt.Fprintf(&sb, `<a href="%s">%s</a>%s`, h, label, sep)
		}
		if r.Intn(2) == 0 {
			hn, hp := famHostile(fam, k+1, u), famHostile(fam, k-1, u)
			if hostile && r.Intn(2) == 0 {
				hn = hostileHref(r, k+1, u)
			}
			if hostile && r.Intn(2) == 0 {
				hp = hostileHref(r, k-1, u)
			}
			li := r.Intn(len(nextLabels))
			nl, pl := nextLabels[li], prevLabels[li]
			if hostile && r.Intn(4) == 0 {
				// labels laid out over several lines, as long as link texts may be for the prev/next scorer give or take a character
				nl, pl = brLabel(r, "next"), brLabel(r, "previous")
			}
			fmt.Fprintf(&sb, `<a href="%s" class="%s">%s</a> <a href="%s" rel="prev">%s</a>`, hn, []string{"next", "btn", "nav-next pager"}[r.Intn(3)], nl, hp, pl)
		}
		sb.WriteString(`</div>`)
		for w := 0; w < nwrap; w++ {
			sb.WriteString(`</div>`)
		}
		if gi == 0 && ngroups == 2 {
			sb.WriteString(`<p>` + fillerWords(r, 30) + `</p>`)
		}
	}
	sb.WriteString(`<p><a href="/archive/older">older posts</a> <a href="/archive/newer">newer</a></p></body></html>`)
	return &Pager{HTML: sb.String(), PageURL: pu, Desc: "hostile"}
}

// genFolderPager: a pager whose links carry only a number, point outside the folder of the page URL and
// sit in a container named like a pager: for prev/next the only evidence is the container, the URL
// pattern and the page number next to the current one (scores close to the acceptance threshold).
func genFolderPager(r *RNG) *Pager {
	tmpl := []string{"/news/page/%d/index.html", "/archive/%d/list.html", "/blog/p/%d/", "/gallery/%d/view"}[r.Intn(4)]
	N := 3 + r.Intn(6)
	k := 1 + r.Intn(N)
	pg := &Pager{N: N, K: k, PageURL: "http://example.com" + fmt.Sprintf(tmpl, k)}
	var sb strings.Builder
	sb.WriteString(`<html><head><title>T</title></head><body><p>` + fillerWords(r, 50+r.Intn(40)) + `</p>`)
	sb.WriteString(`<div class="` + []string{"pagination", "pager", "paging", "page-nav", "pages"}[r.Intn(5)] + `">`)
	for i := 1; i <= N; i++ {
		if i == k {
			fmt.Fprintf(&sb, "<span>%d</span> ", i)
		} else {
			fmt.Fprintf(&sb, `<a href="%s">%d</a> `, fmt.Sprintf(tmpl, i), i)
		}
	}
	sb.WriteString(`</div><p>` + fillerWords(r, 30) + `</p></body></html>`)
	pg.HTML = sb.String()
	return pg
}

// genTiePager builds pagers of the two shapes in which the page-number
// detector has several equally plausible readings (used by C11): (A) a gapped
// run "1 .. k-1 k k+1" over a URL family with more than one numeric component,
// so that a lone link stands for a pattern of its own; (B) two URL families
// interleaved in one run of links.
func genTiePager(r *RNG) *Pager {
	var sb strings.Builder
	sb.WriteString(`<html><head><title>T</title></head><body><p>` + fillerWords(r, 50+r.Intn(40)) + `</p><div class="pg">`)
	pu := ""
	if r.Intn(3) == 0 {
		// shape C: two runs of consecutive numbers of the same length, the first with plain numbers in it
		// (1 2 [3] ... [7] [8] [9]): which run is "the longest" must not depend on the order a map is ranged over
		L := 3 + r.Intn(2)
		start2 := L + 2 + r.Intn(4)
		plain := 1 + r.Intn(2)
		pu = fmt.Sprintf("http://example.com/story?page=%d", plain)
		for n := 1; n <= L; n++ {
			if n <= plain {
				fmt.Fprintf(&sb, "%d ", n)
			} else {
				fmt.Fprintf(&sb, `<a href="/story?page=%d">%d</a> `, n, n)
			}
		}
		sb.WriteString("... ")
		for n := start2; n < start2+L; n++ {
			fmt.Fprintf(&sb, `<a href="/story?page=%d">%d</a> `, n, n)
		}
	} else if r.Intn(2) == 0 {
		// shape A
		k := 3 + r.Intn(6)
		id := 10 + r.Intn(90)
		fam := r.Intn(4)
		link := func(n int) string {
			switch fam {
			case 0:
				return fmt.Sprintf("/a?id=%d&page=%d", id, n)
			case 1:
				return fmt.Sprintf("/a/%d/page/%d", id, n)
			case 2:
				return fmt.Sprintf("/story-%d/alpha?p=%d&s=%d", id, n, id)
			default:
				return fmt.Sprintf("/%d/%d/alpha/%d", 2000+id%20, 1+id%12, n)
			}
		}
		pu = "http://example.com" + link(k)
		nums := []int{1}
		if r.Intn(2) == 0 {
			nums = append(nums, 2)
		}
		nums = append(nums, k-1, k, k+1)
		if r.Intn(2) == 0 {
			nums = append(nums, k+2)
		}
		seen := map[int]bool{}
		for _, n := range nums {
			if seen[n] || n < 1 {
				continue
			}
			seen[n] = true
			if n == k {
				fmt.Fprintf(&sb, "%d ", n)
			} else {
				fmt.Fprintf(&sb, `<a href="%s">%d</a> `, link(n), n)
			}
		}
	} else {
		// shape B
		pu = []string{"http://example.com/", "http://example.com/story/alpha/", "http://example.com/story"}[r.Intn(3)]
		famA, famB := r.Intn(9), r.Intn(9)
		u := mustURL(pu)
		n := 4 + r.Intn(5)
		k := 0
		if r.Intn(2) == 0 {
			k = 1 + r.Intn(n)
		}
		for i := 1; i <= n; i++ {
			if i == k {
				fmt.Fprintf(&sb, "%d ", i)
				continue
			}
			f := famA
			if i%2 == 0 {
				f = famB
			}
			fmt.Fprintf(&sb, `<a href="%s">%d</a> `, famHostile(f, i, u), i)
		}
	}
	sb.WriteString(`</div></body></html>`)
	return &Pager{HTML: sb.String(), PageURL: pu, Desc: "tie"}
}
