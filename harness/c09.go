package main

import (
	"fmt"
	"strings"

	"golang.org/x/net/html"
)

// C09 — the views of one result agree.

func init() {
	register(&Prop{
		ID:   "C09",
		Rule: "cases 0,1 mod 3: G-article pages with every block kind; (1) the token sequence of Result.Text must equal the token sequence of the visible text of Result.Node (harness' own walk: skips script/style, hidden/aria-hidden/display:none/visibility:hidden elements and embed placeholders); (2) ContentImages must be a subsequence of the list obtained by visiting img/source elements of Result.Node in document order and emitting src, then each srcset candidate. Cases 2 mod 3: text-only pages (paragraphs, headings, lists, quotes, pre, link clusters, javascript: anchors) with punctuation attached to / detached from words; (3) WordCount must equal the number of whitespace-separated items of Result.Text that contain an ASCII letter or digit. Non-trivial = output with tokens; distinct = distinct (mode, block kinds present, #images bucket or word-count bucket).",
		Assumptions: []string{
			"an embed placeholder stands for a frame the viewer substitutes: its inner text is not part of the visible text of the HTML view (C04 makes the same carve-out)",
			"the title of generated pages matches no block, so no title is detected inside the content",
		},
		N: func(tier string) int {
			if tier == "quick" {
				return 30000
			}
			return 300000
		},
		Floors: func(tier string) map[string]int64 {
			return map[string]int64{"text_html_agree_docs": 2000, "content_images_entries": 3000, "wordcount_docs": 1000, "wordcount_words": 100000}
		},
		Run: runC09,
	})
}

func htmlImageList(n *html.Node) []string {
	var out []string
	walk(n, func(x *html.Node) bool {
		if x.Type == html.ElementNode && (x.Data == "img" || (x.Data == "source" && x.Parent != nil && x.Parent.Data == "picture")) {
			if s := attr(x, "src"); s != "" {
				out = append(out, s)
			}
			out = append(out, parseSrcset(attr(x, "srcset"))...)
		}
		return true
	})
	return out
}

// inlineNoBreak lists the inline formatting elements whose boundaries do not
// separate words for a reader of the rendered HTML; every other element does
// (block-level elements, table parts, media, foreign content, unknown tags).
var inlineNoBreak = map[string]bool{"a": true, "b": true, "i": true, "em": true, "strong": true, "span": true, "u": true, "code": true, "font": true, "sub": true, "sup": true,
	"small": true, "abbr": true, "cite": true, "q": true, "s": true, "mark": true, "time": true, "var": true, "kbd": true, "label": true, "tt": true, "big": true, "del": true, "ins": true, "wbr": true, "strike": true, "samp": true, "nobr": true}

// renderedWords returns the whitespace-separated words of the visible text of
// n as a browser would show them: text nodes are joined directly, block-level
// boundaries and <br> separate words.
func renderedWords(n *html.Node) []string {
	return wordsOfTree(n, func(x *html.Node) bool { return isPlaceholder(x) || notRendered(x) })
}

// wordsOfTree: the words of a tree as a browser lays them out; element
// boundaries separate words unless the element is inline. Subtrees for which
// skip is true are left out.
func wordsOfTree(n *html.Node, skip func(*html.Node) bool) []string {
	var sb strings.Builder
	var rec func(x *html.Node)
	rec = func(x *html.Node) {
		switch x.Type {
		case html.TextNode:
			sb.WriteString(x.Data)
			return
		case html.ElementNode:
			if skip != nil && skip(x) {
				return
			}
			if !inlineNoBreak[x.Data] {
				sb.WriteString(" ")
			}
		}
		for ch := x.FirstChild; ch != nil; ch = ch.NextSibling {
			rec(ch)
		}
		if x.Type == html.ElementNode && !inlineNoBreak[x.Data] {
			sb.WriteString(" ")
		}
	}
	rec(n)
	return strings.Fields(sb.String())
}

func asciiWordCount(text string) int {
	n := 0
	for _, f := range strings.Fields(text) {
		for i := 0; i < len(f); i++ {
			ch := f[i]
			if ch >= '0' && ch <= '9' || ch >= 'a' && ch <= 'z' || ch >= 'A' && ch <= 'Z' || ch == '_' {
				n++
				break
			}
		}
	}
	return n
}

func runC09(c *Ctx, idx int) {
	if idx%3 == 2 {
		prof := Profile{Inline: true, JSAnchors: true, Headings: true, Lists: true, Quotes: true, Pre: true, Chrome: true, Wrappers: true, Punct: true, ShortBias: 300}
		prof.Glue = idx%4 < 2      // words that continue across inline boundaries
		prof.OddSpaces = idx%5 < 2 // no-break spaces, em spaces, ideographic spaces between words
		if idx%2 == 0 {
			// short pages with "unlikely" wrappers: the extraction falls back to
			// its second pass (markers ignored) and the count must follow
			prof.Unlikely, prof.MinBlocks, prof.MaxBlocks = 500, 2, 7
		}
		ar, ok := c.runArticle(idx, prof, nil)
		if !ok {
			return
		}
		words := asciiWordCount(ar.Res.Text)
		if ar.Res.WordCount != words {
			c.Violation("wordcount", fmt.Sprintf("WordCount=%d but the distilled text has %d words", ar.Res.WordCount, words), ar.witness(map[string]any{"WordCount": ar.Res.WordCount, "words_in_text": words}))
			return
		}
		c.Inc("wordcount_docs")
		c.Count("wordcount_words", int64(words))
		if words > 0 {
			c.Sig(fmt.Sprintf("wc|%s|%d", kindSig(ar.G.L.Kinds), words/50))
		}
		return
	}
	prof := fullProfile()
	prof.Skipped = idx%2 == 0
	prof.MediaInText = true
	prof.RelURLs = idx%4 == 0
	prof.Glue = idx%3 == 0
	ar, ok := c.runArticle(idx, prof, nil)
	if !ok {
		return
	}
	tt := rxTok.FindAllString(ar.Res.Text, -1)
	ht := textNodeTokens(ar.Res.Node, func(n *html.Node) bool { return isPlaceholder(n) || notRendered(n) })
	if strings.Join(tt, " ") != strings.Join(ht, " ") {
		// first difference
		i := 0
		for i < len(tt) && i < len(ht) && tt[i] == ht[i] {
			i++
		}
		at := func(s []string) string {
			if i < len(s) {
				return s[i]
			}
			return "<end>"
		}
		kind := "text-vs-html"
		c.Violation(kind, fmt.Sprintf("word sequences differ at position %d: Text has %s, HTML has %s (Text %d tokens, HTML %d tokens)", i, at(tt), at(ht), len(tt), len(ht)),
			ar.witness(map[string]any{"position": i, "text_token": at(tt), "html_token": at(ht)}))
		return
	}
	// the same at the level of whole words: no two words glued, none split
	// (generated pages never let a word span an inline element boundary)
	tw, hw := strings.Fields(ar.Res.Text), renderedWords(ar.Res.Node)
	if strings.Join(tw, " ") != strings.Join(hw, " ") {
		i := 0
		for i < len(tw) && i < len(hw) && tw[i] == hw[i] {
			i++
		}
		at := func(s []string) string {
			if i < len(s) {
				return s[i]
			}
			return "<end>"
		}
		kind := "words-differ"
		if strings.HasPrefix(at(hw), at(tw)) && at(hw) != at(tw) {
			kind = "words-glued-in-html"
		} else if strings.HasPrefix(at(tw), at(hw)) && at(hw) != at(tw) {
			kind = "words-glued-in-text"
		}
		c.Violation(kind, fmt.Sprintf("word sequences of Text and of the rendered HTML differ at word %d: Text has %q, HTML has %q", i, at(tw), at(hw)),
			ar.witness(map[string]any{"position": i, "text_word": at(tw), "html_word": at(hw)}))
		return
	}
	c.Inc("text_html_agree_docs")
	c.Count("tokens_compared", int64(len(tt)))
	c.Count("words_compared", int64(len(tw)))
	// images
	list := htmlImageList(ar.Res.Node)
	j := 0
	for _, u := range ar.Res.ContentImages {
		for j < len(list) && list[j] != u {
			j++
		}
		if j == len(list) {
			c.Violation("content-image-not-in-html", fmt.Sprintf("ContentImages entry %q is not the src / srcset candidate of an image element of the distilled HTML at or after the position of the previous entry", u),
				ar.witness(map[string]any{"entry": u, "content_images": ar.Res.ContentImages, "html_images": list}))
			return
		}
		j++
	}
	c.Count("content_images_entries", int64(len(ar.Res.ContentImages)))
	c.Count("html_image_urls", int64(len(list)))
	if len(tt) > 0 {
		c.Sig(fmt.Sprintf("views|%s|%d", kindSig(ar.G.L.Kinds), len(ar.Res.ContentImages)/3))
	}
	c.Sample(func() any {
		return map[string]any{"case": idx, "html": trunc(ar.Src, 1200), "content_images": ar.Res.ContentImages}
	})
}
