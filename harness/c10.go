package main

import (
	"fmt"
	"net/http"
	"net/http/httptest"
	nurl "net/url"
	"os"
	"path/filepath"
	"reflect"
	"strings"
	"sync"
	"time"

	distiller "github.com/markusmobius/go-domdistiller"
	"golang.org/x/net/html"
)

// C10 — caller-owned arguments are never modified (snapshot monitor).

type nodeSnap struct {
	P                               *html.Node
	Type                            html.NodeType
	Atom                            uint32
	Data, NS                        string
	Attr                            []html.Attribute
	Parent, Prev, Next, First, Last *html.Node
}

func snapshotTree(n *html.Node) []nodeSnap {
	top := n
	for top.Parent != nil {
		top = top.Parent
	}
	var out []nodeSnap
	var rec func(x *html.Node)
	rec = func(x *html.Node) {
		out = append(out, nodeSnap{P: x, Type: x.Type, Atom: uint32(x.DataAtom), Data: x.Data, NS: x.Namespace,
			Attr: append([]html.Attribute(nil), x.Attr...), Parent: x.Parent, Prev: x.PrevSibling, Next: x.NextSibling, First: x.FirstChild, Last: x.LastChild})
		for ch := x.FirstChild; ch != nil; ch = ch.NextSibling {
			rec(ch)
		}
	}
	rec(top)
	return out
}

func diffSnap(a, b []nodeSnap) string {
	if len(a) != len(b) {
		return fmt.Sprintf("number of nodes changed from %d to %d", len(a), len(b))
	}
	for i := range a {
		x, y := a[i], b[i]
		what := ""
		switch {
		case x.P != y.P:
			what = "a different node object is in this position"
		case x.Type != y.Type:
			what = "Type"
		case x.Atom != y.Atom:
			what = "DataAtom"
		case x.Data != y.Data:
			what = fmt.Sprintf("Data %q -> %q", trunc(x.Data, 60), trunc(y.Data, 60))
		case x.NS != y.NS:
			what = "Namespace"
		case !reflect.DeepEqual(x.Attr, y.Attr) && !(len(x.Attr) == 0 && len(y.Attr) == 0):
			what = fmt.Sprintf("Attr %v -> %v", x.Attr, y.Attr)
		case x.Parent != y.Parent:
			what = "Parent link"
		case x.Prev != y.Prev:
			what = "PrevSibling link"
		case x.Next != y.Next:
			what = "NextSibling link"
		case x.First != y.First:
			what = "FirstChild link"
		case x.Last != y.Last:
			what = "LastChild link"
		}
		if what != "" {
			return fmt.Sprintf("node #%d (<%s>): %s", i, trunc(x.Data, 30), what)
		}
	}
	return ""
}

type urlSnap struct {
	ptr  *nurl.URL
	val  nurl.URL
	user string
	has  bool
}

func snapURL(u *nurl.URL) urlSnap {
	s := urlSnap{ptr: u}
	if u != nil {
		s.val = *u
		if u.User != nil {
			s.has = true
			s.user = u.User.String()
		}
		s.val.User = nil
	}
	return s
}

func (s urlSnap) diff(u *nurl.URL) string {
	if u != s.ptr {
		return "the OriginalURL pointer was replaced"
	}
	if u == nil {
		return ""
	}
	cur := *u
	curUser, has := "", u.User != nil
	if has {
		curUser = u.User.String()
	}
	cur.User = nil
	if cur != s.val || has != s.has || curUser != s.user {
		return fmt.Sprintf("the URL pointed to changed from %q to %q", s.val.String(), cur.String())
	}
	return ""
}

type optSnap struct {
	ptr *distiller.Options
	val distiller.Options
	u   urlSnap
}

func snapOpts(o *distiller.Options) optSnap {
	s := optSnap{ptr: o}
	if o != nil {
		s.val = *o
		s.u = snapURL(o.OriginalURL)
	}
	return s
}

func (s optSnap) diff() string {
	if s.ptr == nil {
		return ""
	}
	cur := *s.ptr
	if cur.LogFlags != s.val.LogFlags || cur.SkipPagination != s.val.SkipPagination || cur.PaginationAlgo != s.val.PaginationAlgo {
		return fmt.Sprintf("Options changed from %+v to %+v", s.val, cur)
	}
	if cur.OriginalURL != s.val.OriginalURL {
		return fmt.Sprintf("Options.OriginalURL changed from %v to %v", s.val.OriginalURL, cur.OriginalURL)
	}
	return s.u.diff(cur.OriginalURL)
}

// loopback server for ApplyForURL, one per worker process
var (
	srvOnce sync.Once
	srv     *httptest.Server
	srvMu   sync.Mutex
	srvPage = map[string]string{}
)

func loopback() *httptest.Server {
	srvOnce.Do(func() {
		srv = httptest.NewServer(http.HandlerFunc(func(w http.ResponseWriter, r *http.Request) {
			if strings.HasPrefix(r.URL.Path, "/redir/") {
				// temporary redirect to the page itself
				loc := strings.TrimPrefix(r.URL.Path, "/redir")
				if r.URL.RawQuery != "" {
					loc += "?" + r.URL.RawQuery
				}
				http.Redirect(w, r, loc, http.StatusFound)
				return
			}
			srvMu.Lock()
			body, ok := srvPage[r.URL.Path]
			srvMu.Unlock()
			if !ok {
				http.NotFound(w, r)
				return
			}
			w.Header().Set("Content-Type", "text/html; charset=utf-8")
			w.Write([]byte(body))
		}))
	})
	return srv
}

func init() {
	register(&Prop{
		ID:   "C10",
		Rule: "histories of calls on caller-owned arguments: a G-article page with every construct that makes the pipeline rewrite nodes (javascript: anchors, font, noscript/lazy images, picture without img, embeds, twitter quotes, figures, data tables) is parsed once; roots = the document, a random attached element, a detached clone; a history of 5 calls (same tree, same *Options reused, other algorithm/flags through fresh Options sharing the same *url.URL, nil options) runs and after EVERY call a deep snapshot of the whole tree (from the top-most ancestor: node identity, Type, DataAtom, Data, Namespace, attributes, all five links) and of Options + *url.URL (incl. Userinfo) is compared with the snapshot before. ApplyForReader/ApplyForFile are checked for the Options; ApplyForURL runs against an in-process loopback HTTP server with opts in {nil, OriginalURL nil, OriginalURL = another URL} over addresses with query, fragment and a temporary redirect; Result.URL must be the address the document was fetched from (fragment kept) and the whole result must equal ApplyForReader on the same bytes with OriginalURL = that address. Non-trivial = a call that returned a result; distinct = distinct (entry point, root kind, block kinds of the page).",
		Assumptions: []string{
			"loopback HTTP (127.0.0.1) is available in the sandbox",
			"the snapshot compares attribute slices by content (a reallocated but equal slice is not a modification the caller can observe through the API of html.Node)",
		},
		N: func(tier string) int {
			if tier == "quick" {
				return 6000
			}
			return 100000
		},
		Floors: func(tier string) map[string]int64 {
			return map[string]int64{"tree_snapshots_compared": 8000, "options_snapshots_compared": 8000, "applyforurl_calls": 500, "nodes_snapshotted": 100000}
		},
		Run: runC10,
	})
}

func runC10(c *Ctx, idx int) {
	r := c.RNG(idx, 1)
	prof := fullProfile()
	prof.Skipped, prof.MediaInText, prof.AttrNoise = true, true, idx%3 == 0
	prof.NonASCII = idx%2 == 0 // text that a normaliser would rewrite (decomposed accents, soft hyphens, compatibility letters)
	prof.H1Fallback = idx%4 >= 2 // the <title> of these pages is short: the title is taken from an <h1> that has markup to be left out
	g := NewArtGen(r, prof)
	src := g.Doc()
	if idx%4 == 0 {
		// add a pager so that both pagination finders have work
		pg := genPager(r, true)
		i := strings.Index(pg.HTML, "<body>")
		src = strings.Replace(src, "</body>", pg.HTML[i+6:len(pg.HTML)-len("</body></html>")]+"</body>", 1)
	}
	doc := parseHTML(src)
	els := allElements(doc)
	pageURL := mustURL([]string{
		"http://user:pw@example.com/story/alpha/page/2/?x=1#frag",
		g.P.PageURL,
		"http://example.com/story/alpha/page/2/",
		"http://example.com/story/alpha/",
		"HTTP://Example.COM/story/alpha%20beta/page/2/?q=a%2Fb#Frag",
		"https://example.com/",
		"http://example.com",
		"http://example.com?q=1#f",
		"//example.com/story/alpha/page/2",
		"http://example.com/a%2Fb/story",
		"http://example.com/caf%C3%A9/x%2Fy/page/2",
	}[idx%11])
	witness := func(extra map[string]any) map[string]any {
		w := map[string]any{"html": src, "page_url": pageURL.String()}
		for k, v := range extra {
			w[k] = v
		}
		return w
	}
	c.SetInput(func() any { return witness(nil) })

	type rootT struct {
		n   *html.Node
		how string
	}
	roots := []rootT{{doc, "document"}}
	if len(els) > 0 {
		e := els[r.Intn(len(els))]
		roots = append(roots, rootT{e, "attached:" + e.Data}, rootT{detached(e), "detached:" + e.Data})
	}
	root := roots[idx%len(roots)]
	shared := &distiller.Options{OriginalURL: pageURL, PaginationAlgo: distiller.PaginationAlgo(idx % 2), LogFlags: 0}
	history := []*distiller.Options{
		shared,
		{OriginalURL: pageURL, PaginationAlgo: distiller.PaginationAlgo((idx + 1) % 2), SkipPagination: false},
		shared,
		nil,
		{OriginalURL: pageURL, SkipPagination: true, LogFlags: distiller.LogFlag(r.Intn(32))},
	}
	before := snapshotTree(root.n)
	c.Count("nodes_snapshotted", int64(len(before)))
	urlBefore := snapURL(pageURL)
	for step, o := range history {
		os := snapOpts(o)
		cr := c.apply(root.n, o)
		if cr.Panic != "" {
			c.Inc("unobservable_panic")
			return
		}
		after := snapshotTree(root.n)
		c.Inc("tree_snapshots_compared")
		if d := diffSnap(before, after); d != "" {
			c.Violation("tree-modified:"+strings.SplitN(root.how, ":", 2)[0], fmt.Sprintf("Apply (call %d of the history, root %s) modified the caller's tree: %s", step+1, root.how, d),
				witness(map[string]any{"root": root.how, "call": step + 1, "difference": d, "options": optsDesc(o)}))
			return
		}
		c.Inc("options_snapshots_compared")
		if d := os.diff(); d != "" {
			c.Violation("options-modified:Apply", fmt.Sprintf("Apply (call %d) modified the caller's Options: %s", step+1, d), witness(map[string]any{"call": step + 1, "difference": d}))
			return
		}
		if d := urlBefore.diff(pageURL); d != "" {
			c.Violation("url-modified:Apply", fmt.Sprintf("Apply (call %d) modified the caller's *url.URL: %s", step+1, d), witness(map[string]any{"call": step + 1, "difference": d}))
			return
		}
		if cr.Err == nil {
			c.Sig("Apply|" + strings.SplitN(root.how, ":", 2)[0] + "|" + kindSig(g.L.Kinds))
		}
	}

	// ApplyForReader / ApplyForFile: options
	for k := 0; k < 2; k++ {
		o := &distiller.Options{OriginalURL: pageURL, PaginationAlgo: distiller.PaginationAlgo(k)}
		os_ := snapOpts(o)
		var cr callResult
		name := "ApplyForReader"
		if k == 0 {
			cr = c.applyReader(src, o)
		} else {
			name = "ApplyForFile"
			path := filepath.Join(c.scratch, fmt.Sprintf("c10.%d.html", c.Shard))
			os.WriteFile(path, []byte(src), 0o644)
			c.Calls(1)
			cr.Panic, cr.Stack = c.Guard(func() { cr.Res, cr.Err = distiller.ApplyForFile(path, o) })
		}
		if cr.Panic != "" {
			c.Inc("unobservable_panic")
			return
		}
		c.Inc("options_snapshots_compared")
		if d := os_.diff(); d != "" {
			c.Violation("options-modified:"+name, name+" modified the caller's Options: "+d, witness(map[string]any{"difference": d}))
			return
		}
		if d := urlBefore.diff(pageURL); d != "" {
			c.Violation("url-modified:"+name, name+" modified the caller's *url.URL: "+d, witness(map[string]any{"difference": d}))
			return
		}
		c.Sig(name + "|" + kindSig(g.L.Kinds))
	}

	// ApplyForURL against the loopback server
	if idx%3 == 0 {
		s := loopback()
		path := fmt.Sprintf("/w%d/story/alpha/page/%d", c.Shard, 1+idx%7)
		srvMu.Lock()
		srvPage[path] = src
		srvMu.Unlock()
		// the address asked for and the address the document is finally fetched from
		// (a fragment is not sent to the server and survives a redirect)
		target, fetched := s.URL+path+"?x=1", ""
		switch c.RNG(idx, 5).Intn(6) {
		case 0:
			target = s.URL + path + "#frag"
		case 1:
			target = s.URL + path + "?x=1#frag"
		case 2:
			target, fetched = s.URL+"/redir"+path+"?x=1", s.URL+path+"?x=1"
		case 3:
			target, fetched = s.URL+"/redir"+path+"#frag", s.URL+path+"#frag"
		}
		redirected := fetched != ""
		if !redirected {
			fetched = target
		} else {
			c.Inc("applyforurl_redirected")
		}
		other := mustURL("http://orig.example/some/page?z=9")
		otherSnap := snapURL(other)
		for k, o := range []*distiller.Options{nil, {PaginationAlgo: distiller.PageNumber}, {OriginalURL: other, PaginationAlgo: distiller.PaginationAlgo(idx % 2)}} {
			os_ := snapOpts(o)
			var cr callResult
			c.Calls(1)
			c.Inc("applyforurl_calls")
			cr.Panic, cr.Stack = c.Guard(func() { cr.Res, cr.Err = distiller.ApplyForURL(target, 20*time.Second, o) })
			if cr.Panic != "" {
				c.Inc("unobservable_panic")
				return
			}
			if cr.Err != nil {
				c.Inc("applyforurl_errors")
				continue
			}
			if d := os_.diff(); d != "" {
				c.Violation("options-modified:ApplyForURL", fmt.Sprintf("ApplyForURL (opts variant %d) modified the caller's Options: %s", k, d), witness(map[string]any{"difference": d, "requested": target}))
				return
			}
			if d := otherSnap.diff(other); d != "" {
				c.Violation("url-modified:ApplyForURL", "ApplyForURL modified the caller's *url.URL: "+d, witness(map[string]any{"difference": d}))
				return
			}
			if redirected && cr.Res.URL == strings.TrimSuffix(fetched, "#frag") {
				// whether a fragment survives a redirect is the HTTP client's business
				// (browsers carry it over, net/http does not); both are "the fetched address"
				fetched = cr.Res.URL
			}
			if cr.Res.URL != fetched {
				c.Violation("applyforurl-result-url", fmt.Sprintf("ApplyForURL(%q) fetched %q but returned Result.URL=%q", target, fetched, cr.Res.URL), witness(map[string]any{"requested": target, "fetched": fetched, "result_url": cr.Res.URL}))
				return
			}
			// "uses the fetched address as page URL": same outcome as distilling the
			// same bytes with OriginalURL = the fetched address
			ro := distiller.Options{}
			if o != nil {
				ro = *o
			}
			ro.OriginalURL = mustURL(fetched)
			if ref := c.applyReader(src, &ro); ref.Panic == "" && ref.Err == nil {
				c.Inc("applyforurl_vs_reader_compared")
				if d := diffViews(viewOf(cr.Res), viewOf(ref.Res), true); d != "" {
					c.Violation("applyforurl-page-url:"+d, fmt.Sprintf("ApplyForURL(%q) differs in %s from ApplyForReader on the same bytes with OriginalURL=%q", target, d, fetched), witness(map[string]any{"requested": target, "fetched": fetched, "fields": d}))
					return
				}
			}
			c.Sig(fmt.Sprintf("ApplyForURL|%d|%s", k, kindSig(g.L.Kinds)))
		}
		srvMu.Lock()
		delete(srvPage, path)
		srvMu.Unlock()
	}
	c.Sample(func() any { return map[string]any{"case": idx, "root": root.how, "html": trunc(src, 1200)} })
}
