package main

import (
	"fmt"
	"strings"
)

// C08 — media and tables are retained exactly when they follow retained text.

func init() {
	register(&Prop{
		ID:   "C08",
		Rule: "G-article pages that interleave long paragraphs (usually kept), short paragraphs and link clusters (usually dropped), headings, lists, quotes and pre with media of every kind (img, lazy img, picture, figure with/without caption, video, youtube/vimeo iframe, twitter quote, data table), also inside paragraphs, list items and layout-table cells. For each media element (identified by the unique id of its URL) 'present in Result.Node' is compared with 'the last text-block token before it is in Result.Text'; at most one img/figure per page may be present although its predecessor is absent (lead image). Non-trivial = a media element observed; distinct = distinct (kind, placement, present, predecessor kept).",
		Assumptions: []string{
			"the nearest preceding text block of a media element is the block holding the last visible text token written before it (figure captions, table cells, embed text and hidden/skipped carriers are not text blocks)",
			"the page title matches no block (a title-labelled block is content but renders empty, which would blind the observer)",
		},
		N: func(tier string) int {
			if tier == "quick" {
				return 40000
			}
			return 400000
		},
		Floors: func(tier string) map[string]int64 {
			return map[string]int64{"media_kept": 5000, "media_dropped": 2000, "lead_promotions": 100, "kind_video": 500, "kind_table": 500, "kind_embed": 500, "kind_figure": 500}
		},
		Run: runC08,
	})
}

func runC08(c *Ctx, idx int) {
	prof := Profile{Inline: idx%2 == 0, JSAnchors: true, Headings: true, Lists: idx%4 < 2, Quotes: idx%4 < 2, Pre: true, Images: true, Figures: true,
		Videos: true, Embeds: true, Twitter: true, DataTables: true, LayoutTables: idx%8 == 0, Chrome: true, Wrappers: true,
		Hidden: idx%5 == 0, MediaInText: true, ShortBias: 400, MinBlocks: 4, MaxBlocks: 18}
	ar, ok := c.runArticle(idx, prof, nil)
	if !ok {
		return
	}
	L := ar.G.L
	outHTML := outer(ar.Res.Node)
	kept := tokenSet(rxTok.FindAllString(ar.Res.Text, -1))
	promoted := 0
	var promotedIDs []string
	for _, m := range L.Media {
		if m.PrevTok < 0 {
			c.Inc("media_after_wordless_block(not observable, skipped)")
			continue
		}
		present := strings.Contains(outHTML, m.ID)
		prevKept := m.PrevTok > 0 && kept[fmt.Sprintf("w%dq", m.PrevTok)]
		c.Inc("kind_" + m.Kind)
		if present {
			c.Inc("media_kept")
		} else {
			c.Inc("media_dropped")
		}
		c.Sig(fmt.Sprintf("%s|%s|%v|%v", m.Kind, m.Where, present, prevKept))
		if present == prevKept {
			continue
		}
		if present && !prevKept && (m.Kind == "img" || m.Kind == "figure") {
			promoted++
			promotedIDs = append(promotedIDs, m.ID)
			continue
		}
		dir := "dropped-after-kept-text"
		if present {
			dir = "kept-after-dropped-text"
		}
		c.Violation(dir+":"+m.Kind, fmt.Sprintf("%s %s (at %s): present=%v but the preceding text block (token w%dq) kept=%v", m.Kind, m.ID, m.Where, present, m.PrevTok, prevKept),
			ar.witness(map[string]any{"media": m.ID, "kind": m.Kind, "prev_token": m.PrevTok}))
		return
	}
	if promoted > 1 {
		c.Violation("several-lead-images", fmt.Sprintf("%d images/figures are present although their preceding text is dropped (at most one lead image allowed): %v", promoted, promotedIDs),
			ar.witness(map[string]any{"promoted": promotedIDs}))
		return
	}
	c.Count("lead_promotions", int64(promoted))
	c.Sample(func() any { return map[string]any{"case": idx, "html": trunc(ar.Src, 1500), "media": len(L.Media)} })
}
