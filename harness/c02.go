package main

import (
	"fmt"
	"regexp"
	"strings"
	"unicode/utf8"

	distiller "github.com/markusmobius/go-domdistiller"
	"golang.org/x/net/html"
)

// artCase builds the article of case idx for a property and runs it through
// the distiller as bytes (even idx) or as a parsed tree (odd idx).
type artRun struct {
	Src  string
	G    *ArtGen
	Res  *distiller.Result
	Doc  *html.Node // parsed source (harness' own parse)
	Mode string
	URL  string
}

func (c *Ctx) runArticle(idx int, prof Profile, opts *distiller.Options) (*artRun, bool) {
	r := c.RNG(idx, 1)
	g := NewArtGen(r, prof)
	src := g.Doc()
	ar := &artRun{Src: src, G: g}
	if opts == nil {
		opts = &distiller.Options{OriginalURL: mustURL(g.P.PageURL), SkipPagination: true}
	}
	if opts.OriginalURL != nil {
		ar.URL = opts.OriginalURL.String()
	}
	c.SetInput(func() any { return map[string]any{"html": src, "options": optsDesc(opts)} })
	var cr callResult
	if idx%2 == 0 {
		ar.Mode = "reader"
		cr = c.applyReader(src, opts)
	} else {
		// parsed trees: the document node, the <html> element, the <body>
		// element (attached) or a detached clone of <body> as root
		doc := parseHTML(src)
		root := doc
		ar.Mode = "tree"
		var htmlEl, bodyEl *html.Node
		walk(doc, func(n *html.Node) bool {
			if n.Type == html.ElementNode && n.Data == "html" && htmlEl == nil {
				htmlEl = n
			}
			if n.Type == html.ElementNode && n.Data == "body" && bodyEl == nil {
				bodyEl = n
			}
			return bodyEl == nil
		})
		switch idx / 2 % 4 {
		case 1:
			if htmlEl != nil {
				root, ar.Mode = htmlEl, "tree:html-element"
			}
		case 2:
			if bodyEl != nil {
				root, ar.Mode = bodyEl, "tree:body-element"
			}
		case 3:
			if bodyEl != nil {
				root, ar.Mode = detached(bodyEl), "tree:detached-body"
			}
		}
		cr = c.apply(root, opts)
	}
	if !c.usable(cr) {
		return ar, false
	}
	ar.Res = cr.Res
	return ar, true
}

func (ar *artRun) witness(extra map[string]any) map[string]any {
	w := map[string]any{"mode": ar.Mode, "page_url": ar.URL, "html": ar.Src}
	if ar.Res != nil {
		w["result_text"] = trunc(ar.Res.Text, 4000)
		w["result_html"] = trunc(outer(ar.Res.Node), 8000)
	}
	for k, v := range extra {
		w[k] = v
	}
	return w
}

func kindSig(k map[string]int) string {
	// feature signature: which block kinds the document contains
	s := ""
	for _, name := range []string{"p", "heading", "list", "blockquote", "pre", "img", "picture", "figure", "video", "embed", "twitter", "datatable", "layouttable", "chrome", "wrapper"} {
		if k[name] > 0 {
			s += name + ","
		}
	}
	return s
}

func init() {
	register(&Prop{
		ID:   "C02",
		Rule: "G-article pages (block grammar: paragraphs with inline markup and javascript: anchors, headings, nested lists, quotes, pre, images, pictures, figures with plain/link captions, videos, embeds, twitter quotes, data and layout tables, link clusters, hidden carriers), every word a unique token w<N>q; delivered as bytes (even cases) or parsed tree (odd cases). A case is non-trivial when at least one token was emitted; distinct = distinct (set of block kinds present, number of emitted tokens bucketed by 25).",
		Assumptions: []string{
			"source-visible is known by construction (the generator knows which tokens it put in script/style/comment/hidden carriers or in <title>)",
			"tokens are ASCII and separated by whitespace or tag boundaries; tokenising is per text node",
			"x/net/html parse of the harness equals the parse the distiller sees (same library)",
		},
		N: func(tier string) int {
			if tier == "quick" {
				return 30000
			}
			return 300000
		},
		Floors: func(tier string) map[string]int64 {
			return map[string]int64{"tokens_emitted_text": 50000, "docs_with_output": 1000}
		},
		Run: runC02,
	})
}

// rxGlued: a token with the affixes the generator glues to it across inline boundaries.
var rxGlued = regexp.MustCompile(`^(un)?w\d+q(s|ing|ed|'s)?$`)

var rxAffix = regexp.MustCompile(`(s|ing|ed|'s)$`)

var fillerSet = func() map[string]bool {
	m := map[string]bool{}
	for _, f := range nonASCIIFillers {
		m[f] = true
	}
	for _, f := range escapedLiterals {
		m[f[1]] = true
	}
	return m
}()

// strayWord returns the first word of s that is neither a token nor one of
// the filler words the generator uses ("" if none).
func strayWord(s string) string {
	okWord := func(w string) bool {
		if w == "" || fillerSet[w] || fillerSet[w+"\u2020"] {
			return true
		}
		if m := rxTok.FindString(w); m == w || rxGlued.MatchString(w) {
			return true
		}
		// a filler word with a glued affix
		core := rxAffix.ReplaceAllString(w, "")
		return core != w && (fillerSet[core] || fillerSet[strings.TrimPrefix(core, "un")]) || fillerSet[strings.TrimPrefix(w, "un")]
	}
	for _, w := range strings.Fields(s) {
		if okWord(w) || okWord(strings.Trim(w, ".,;:!?()[]\"'*~-\u2014\u2022\u2020")) {
			continue
		}
		return w
	}
	return ""
}

func runC02(c *Ctx, idx int) {
	prof := fullProfile()
	prof.Skipped = false
	prof.NonASCII = idx%2 == 1 // odd cases are delivered as parsed trees
	prof.Glue = idx%3 == 0
	prof.NeverRendered = true
	ar, ok := c.runArticle(idx, prof, nil)
	if !ok {
		return
	}
	L := ar.G.L
	// nothing invented: every word of the output is a word of the source
	if !utf8.ValidString(ar.Res.Text) {
		c.Violation("invalid-utf8:text", "Result.Text is not valid UTF-8", ar.witness(nil))
		return
	}
	if w := strayWord(ar.Res.Text); w != "" {
		c.Violation("invented-word:text", fmt.Sprintf("Result.Text contains the word %q, which is not a word of the source", w), ar.witness(map[string]any{"word": w}))
		return
	}
	if w := strayWord(strings.Join(wordsOfTree(ar.Res.Node, nil), " ")); w != "" {
		c.Violation("invented-word:html", fmt.Sprintf("the distilled HTML contains the word %q, which is not a word of the source", w), ar.witness(map[string]any{"word": w}))
		return
	}
	c.Inc("docs_all_words_checked")
	check := func(view string, toks []string) int {
		last := 0
		seen := map[string]bool{}
		for _, t := range toks {
			n := tokIdx(t)
			if n <= 0 || n >= len(L.Toks) {
				c.Violation("invented:"+view, fmt.Sprintf("%s view contains token %s that the source does not contain", view, t), ar.witness(map[string]any{"token": t}))
				return 0
			}
			ti := L.Toks[n]
			switch ti.Kind {
			case KText, KCaption, KCell:
			case KPlaceholder:
				if view == "text" {
					c.Violation("placeholder-in-text", fmt.Sprintf("token %s of an embed appears in the text view", t), ar.witness(map[string]any{"token": t}))
					return 0
				}
			default:
				c.Violation("nonvisible:"+view+":"+ti.Kind.String()+":"+ti.Sub, fmt.Sprintf("%s view contains token %s which is not visible text of the source (kind %s/%s at %s)", view, t, ti.Kind, ti.Sub, ti.Place), ar.witness(map[string]any{"token": t}))
				return 0
			}
			if seen[t] {
				c.Violation("duplicate:"+view, fmt.Sprintf("%s view emits token %s more than once", view, t), ar.witness(map[string]any{"token": t}))
				return 0
			}
			seen[t] = true
			if n < last {
				c.Violation("reordered:"+view, fmt.Sprintf("%s view emits token %s after w%dq although it precedes it in the source", view, t, last), ar.witness(map[string]any{"token": t}))
				return 0
			}
			last = n
		}
		return len(toks)
	}
	nt := check("text", rxTok.FindAllString(ar.Res.Text, -1))
	nh := check("html", textNodeTokens(ar.Res.Node, nil))
	c.Count("tokens_emitted_text", int64(nt))
	c.Count("tokens_emitted_html", int64(nh))
	c.Count("tokens_in_source", int64(len(L.Toks)-1))
	c.Inc("docs_" + ar.Mode)
	if nt > 0 {
		c.Inc("docs_with_output")
		c.Sig(fmt.Sprintf("%s|%d", kindSig(L.Kinds), nt/25))
	} else {
		c.Inc("docs_empty_output")
	}
	for k, v := range L.Kinds {
		c.Count("blocks_"+k, int64(v))
	}
	c.Sample(func() any {
		return map[string]any{"case": idx, "mode": ar.Mode, "html": trunc(ar.Src, 1500), "tokens_text": nt, "tokens_html": nh}
	})
}
