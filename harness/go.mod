module verifharness

go 1.20

require (
	github.com/go-shiori/dom v0.0.0-20230515143342-73569d674e1c
	github.com/markusmobius/go-domdistiller v0.0.0
	golang.org/x/net v0.10.0
	golang.org/x/text v0.9.0
)

require (
	github.com/andybalholm/cascadia v1.3.2 // indirect
	github.com/gogs/chardet v0.0.0-20211120154057-b7413eaefb8f // indirect
	github.com/sirupsen/logrus v1.9.0 // indirect
	golang.org/x/sys v0.8.0 // indirect
)

replace github.com/markusmobius/go-domdistiller => /repo
