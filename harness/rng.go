package main

// Private deterministic PRNG (splitmix64). Case lists are a pure function of
// (property, tier, VERIF_SEED, index); nothing in an oracle depends on time.

type RNG struct{ s uint64 }

func mix64(z uint64) uint64 {
	z += 0x9e3779b97f4a7c15
	z = (z ^ (z >> 30)) * 0xbf58476d1ce4e5b9
	z = (z ^ (z >> 27)) * 0x94d049bb133111eb
	return z ^ (z >> 31)
}

func hashStr(s string) uint64 {
	h := uint64(1469598103934665603)
	for i := 0; i < len(s); i++ {
		h ^= uint64(s[i])
		h *= 1099511628211
	}
	return h
}

func NewRNG(parts ...uint64) *RNG {
	s := uint64(0x243f6a8885a308d3)
	for _, p := range parts {
		s = mix64(s ^ mix64(p))
	}
	return &RNG{s: s}
}

func (r *RNG) U64() uint64 {
	r.s += 0x9e3779b97f4a7c15
	z := r.s
	z = (z ^ (z >> 30)) * 0xbf58476d1ce4e5b9
	z = (z ^ (z >> 27)) * 0x94d049bb133111eb
	return z ^ (z >> 31)
}

// Intn returns a value in [0,n).
func (r *RNG) Intn(n int) int {
	if n <= 1 {
		return 0
	}
	return int(r.U64() % uint64(n))
}

// Range returns a value in [lo,hi].
func (r *RNG) Range(lo, hi int) int { return lo + r.Intn(hi-lo+1) }

// Chance returns true with probability num/den.
func (r *RNG) Chance(num, den int) bool { return r.Intn(den) < num }

func (r *RNG) Pick(xs []string) string { return xs[r.Intn(len(xs))] }

func (r *RNG) Perm(n int) []int {
	p := make([]int, n)
	for i := range p {
		p[i] = i
	}
	for i := n - 1; i > 0; i-- {
		j := r.Intn(i + 1)
		p[i], p[j] = p[j], p[i]
	}
	return p
}
