package main

import (
	"fmt"
	"golang.org/x/text/encoding"
	"golang.org/x/text/encoding/charmap"
	"golang.org/x/text/encoding/japanese"
	"golang.org/x/text/encoding/korean"
	"golang.org/x/text/encoding/simplifiedchinese"
	"golang.org/x/text/encoding/unicode"
	"golang.org/x/text/encoding/unicode/utf32"
	"os"
	"path/filepath"
	"runtime/debug"
	"strings"
	"time"

	distiller "github.com/markusmobius/go-domdistiller"
	"golang.org/x/net/html"
	"golang.org/x/net/html/atom"
)

// C01 — every entry point is total.

func init() {
	register(&Prop{
		ID:   "C01",
		Rule: "hostile workloads over all entry points: tag-soup trees (random tags/attributes from the vocabulary every rule of the distiller reads) with the document, random attached elements and their detached clones as roots; every/sampled element of G-article pages as attached and detached root; 24 kinds of hand-built roots (inline roots with text, javascript: anchor roots, nodes without DataAtom, text/comment/doctype/empty-document roots, ...); structure-aware byte mutations of well-formed pages (truncation, dropped end tags, NUL, invalid UTF-8, BOMs, misnested table/select/svg/template fragments, huge attributes) through ApplyForReader and ApplyForFile (also missing path, directory, empty file); hostile pager documents; size stress (<=2000 nesting levels, <=1 MB; flat runs of <=1.4 million siblings after a numeric link, 5.6 MB; run with the 250 MB goroutine stack limit of 32-bit Go); all with options drawn from {nil, LogFlags 0..31, 41 plain and odd page URLs or nil, SkipPagination, both algorithms and out-of-range algorithm values}. Oracle: no panic, no process death, CPU per case <= 60 s, and err != nil or Result.Node is a non-nil <div> element. Non-trivial = a call that returned a result (not an error); distinct = distinct (workload kind, root kind/tag, option shape).",
		Assumptions: []string{
			"termination is restated as bounded progress: inputs are <= ~1 MB and <= 2000 nesting levels and a case that burns 60 s of CPU is reported as non-terminating (the slowest conforming case measured takes < 4 s)",
			"cyclic node graphs and nil roots are outside the Go contract of Apply and are not generated",
		},
		N: func(tier string) int {
			if tier == "quick" {
				return 4800
			}
			return 120000
		},
		Floors: func(tier string) map[string]int64 {
			return map[string]int64{"calls_ok_result": 20000, "calls_error_result": 50, "roots_detached": 3000, "handbuilt_calls": 1000, "byte_inputs": 500, "file_inputs": 100}
		},
		CPUBound: 60,
		Run:      runC01,
	})
}

// c01Check applies the totality oracle to one call.
func (c *Ctx) c01Check(kind string, cr callResult, desc func() any) bool {
	if cr.Panic != "" {
		c.Violation(cr.Panic, fmt.Sprintf("%s: the call panicked: %s", kind, cr.Panic), map[string]any{"workload": kind, "input": desc(), "stack": trunc(cr.Stack, 6000)})
		return false
	}
	if cr.Err != nil {
		c.Inc("calls_error_result")
		if cr.Res != nil {
			c.Inc("calls_error_and_result")
		}
		return true
	}
	res := cr.Res
	if res == nil {
		c.Violation("nil-result-nil-error", kind+": both the result and the error are nil", map[string]any{"workload": kind, "input": desc()})
		return false
	}
	if res.Node == nil || res.Node.Type != html.ElementNode || res.Node.Data != "div" {
		got := "nil"
		if res.Node != nil {
			got = fmt.Sprintf("type=%d data=%q", res.Node.Type, res.Node.Data)
		}
		c.Violation("malformed-result-node", kind+": Result.Node is not a div element: "+got, map[string]any{"workload": kind, "input": desc()})
		return false
	}
	c.Inc("calls_ok_result")
	return true
}

func nodeDesc(root *html.Node, how string, o *distiller.Options) func() any {
	return func() any {
		top := root
		for top.Parent != nil {
			top = top.Parent
		}
		return map[string]any{"root": how, "root_node": trunc(outer(root), 3000), "whole_tree": trunc(outer(top), 6000), "options": optsDesc(o)}
	}
}

func optShape(o *distiller.Options) string {
	if o == nil {
		return "nil"
	}
	s := fmt.Sprintf("a%d", o.PaginationAlgo)
	if o.LogFlags != 0 {
		s += "L"
	}
	if o.OriginalURL == nil {
		s += "U0"
	} else {
		s += "U:" + o.OriginalURL.Scheme
	}
	if o.SkipPagination {
		s += "S"
	}
	return s
}

func (c *Ctx) c01Tree(kind string, root *html.Node, how string, o *distiller.Options) bool {
	d := nodeDesc(root, how, o)
	c.SetInput(d)
	cr := c.apply(root, o)
	tag := root.Data
	if root.Type != html.ElementNode {
		tag = fmt.Sprintf("#type%d", root.Type)
	}
	if cr.Err == nil && cr.Panic == "" {
		c.Sig(kind + "|" + how + "|" + tag + "|" + optShape(o))
	}
	return c.c01Check(kind, cr, d)
}

func (c *Ctx) c01Bytes(kind, src string, o *distiller.Options, viaFile bool) bool {
	d := func() any {
		return map[string]any{"bytes_quoted": trunc(fmt.Sprintf("%q", src), 8000), "len": len(src), "options": optsDesc(o), "via_file": viaFile}
	}
	c.SetInput(d)
	var cr callResult
	if viaFile {
		path := filepath.Join(c.scratch, fmt.Sprintf("in.%d.html", c.Shard))
		os.WriteFile(path, []byte(src), 0o644)
		c.Calls(1)
		cr.Panic, cr.Stack = c.Guard(func() { cr.Res, cr.Err = distiller.ApplyForFile(path, o) })
		c.Inc("file_inputs")
	} else {
		cr = c.applyReader(src, o)
	}
	c.Inc("byte_inputs")
	if cr.Err == nil && cr.Panic == "" {
		c.Sig(fmt.Sprintf("%s|bytes|%v|%s", kind, viaFile, optShape(o)))
	}
	return c.c01Check(kind, cr, d)
}

func runC01(c *Ctx, idx int) {
	r := c.RNG(idx, 1)
	quick := c.Quick()
	switch idx % 8 {
	case 0, 1: // tag soup trees
		src := r.soupDoc()
		doc, err := html.Parse(strings.NewReader(src))
		if err != nil {
			return
		}
		els := allElements(doc)
		if !c.c01Tree("soup", doc, "document", r.opts()) {
			return
		}
		for i := 0; i < 6 && len(els) > 0; i++ {
			e := els[r.Intn(len(els))]
			if !c.c01Tree("soup", e, "attached", r.opts()) {
				return
			}
			c.Inc("roots_attached")
			if !c.c01Tree("soup", detached(e), "detached", r.opts()) {
				return
			}
			c.Inc("roots_detached")
		}
	case 2: // tag soup bytes
		for i := 0; i < 4; i++ {
			if !c.c01Bytes("soup-bytes", r.soupDoc(), r.opts(), i == 3) {
				return
			}
		}
	case 3: // every (thorough) / sampled (quick) element of an article as root
		prof := fullProfile()
		prof.Skipped, prof.MediaInText, prof.AttrNoise = true, true, r.Intn(2) == 0
		prof.MaxBlocks = 8
		g := NewArtGen(r, prof)
		src := g.Doc()
		doc := parseHTML(src)
		els := allElements(doc)
		step := 1
		if quick && len(els) > 12 {
			step = len(els) / 12
		}
		for i := r.Intn(step); i < len(els); i += step {
			e := els[i]
			if !c.c01Tree("article-element", e, "attached", r.opts()) {
				return
			}
			c.Inc("roots_attached")
			if !c.c01Tree("article-element", detached(e), "detached", r.opts()) {
				return
			}
			c.Inc("roots_detached")
		}
	case 4: // mutated article bytes
		prof := fullProfile()
		prof.Skipped = true
		prof.MaxBlocks = 10
		g := NewArtGen(r, prof)
		src := g.Doc()
		for i := 0; i < 4; i++ {
			if !c.c01Bytes("mutated-bytes", r.mutateBytes(src), r.opts(), i%2 == 1) {
				return
			}
		}
	case 5: // hand-built roots
		for i := 0; i < 12; i++ {
			n, how := handBuilt(r)
			c.Inc("handbuilt_calls")
			if !c.c01Tree("hand-built", n, how, r.opts()) {
				return
			}
		}
	case 6: // hostile pagers x odd URLs x both algorithms
		pg := genPager(r, true)
		doc := parseHTML(pg.HTML)
		for i := 0; i < 4; i++ {
			o := r.opts()
			if o == nil {
				o = &distiller.Options{}
			}
			if i < 2 {
				o.OriginalURL = parseOddURL(pg.PageURL)
			}
			o.SkipPagination = false
			o.PaginationAlgo = distiller.PaginationAlgo(i % 2)
			if !c.c01Tree("hostile-pager", doc, "document", o) {
				return
			}
			c.Inc("pager_calls")
		}
	case 7:
		sub := idx / 8
		switch {
		case sub%64 == 3: // insertion-mode stress of the HTML parser, by every route that parses text
			c.Inc("parser_stress_cases")
			c.CPUBound(10 * time.Second) // inputs of < 1 kB
			page := func(body string) string {
				return "<html><head><title>w1q w2q</title></head><body><p>w3q w4q w5q w6q w7q w8q w9q w10q w11q w12q.</p>" + body + "<p>w13q w14q w15q w16q w17q w18q w19q w20q w21q w22q.</p></body></html>"
			}
			route := (sub / 64) % 7
			reps := 1
			if sub/64 >= 7 {
				reps = []int{300, 300, 60, 60, 60, 60, 12}[route] // random fragments; the first five cases use one fixed fragment
			}
			for k := 0; k < reps; k++ {
				frag := "<table><tbody><svg><tr><foreignObject><select></select></tbody>"
				if sub/64 >= 7 {
					frag = parserStress(r)
				}
				esc := html.EscapeString(frag)
				c.Inc("parser_stress_fragments")
				ok := true
				switch route {
				case 0: // bytes
					ok = c.c01Bytes("parser-stress:bytes", []string{frag, page(frag)}[k%2], r.opts(), false)
				case 1: // file
					ok = c.c01Bytes("parser-stress:file", page(frag), r.opts(), true)
				case 2: // healthy tree, markup of a fallback image in <noscript> inside a figure (parsed by the distiller)
					doc := parseHTML(page(`<figure><noscript>` + frag + `</noscript><figcaption>w30q w31q</figcaption></figure>`))
					ok = c.c01Tree("parser-stress:figure-noscript", doc, "document", r.opts())
				case 3: // healthy tree, escaped markup as caption text
					doc := parseHTML(page(`<figure><img src="a.png"><figcaption>w30q w31q ` + esc + `</figcaption></figure>`))
					ok = c.c01Tree("parser-stress:caption-text", doc, "document", r.opts())
				case 4: // healthy tree, escaped markup as text of a paragraph / a table cell
					doc := parseHTML(page(`<p>w30q w31q w32q w33q w34q w35q w36q ` + esc + ` w37q w38q.</p><table><tr><th>w40q</th><th>w41q</th></tr><tr><td>` + esc + `</td><td>w42q</td></tr><tr><td>w43q</td><td>w44q</td></tr></table>`))
					ok = c.c01Tree("parser-stress:text", doc, "document", r.opts())
				case 6: // a hand-built tree (nothing is parsed on the way in): a data table whose <tbody> holds foreign content
					mk := func(tag string, kids ...*html.Node) *html.Node {
						n := &html.Node{Type: html.ElementNode, Data: tag, DataAtom: atom.Lookup([]byte(tag))}
						for _, k := range kids {
							n.AppendChild(k)
						}
						return n
					}
					txt := func(s string) *html.Node { return &html.Node{Type: html.TextNode, Data: s} }
					tbody := mk("tbody")
					for rr := 0; rr < 3; rr++ {
						tr := mk("tr")
						for cc := 0; cc < 6; cc++ {
							tr.AppendChild(mk("td", txt(fmt.Sprintf("w%dq", 100+rr*6+cc))))
						}
						tbody.AppendChild(tr)
					}
					foreign, inner, integ := "math", "tr", "mtext"
					if sub/64 >= 7 {
						foreign = []string{"math", "svg"}[r.Intn(2)]
						inner = []string{"tr", "td", "th", "tbody", "caption"}[r.Intn(5)]
						integ = []string{"mtext", "mi", "foreignObject", "desc", "title"}[r.Intn(5)]
					}
					tbody.AppendChild(mk(foreign, mk(inner, mk(integ, mk("select")))))
					root := mk("div", mk("p", txt(strings.Repeat("w3q w4q w5q w6q w7q w8q w9q w10q. ", 10))), mk("table", tbody))
					ok = c.c01Tree("parser-stress:hand-built-table", root, "hand-built", r.opts())
				case 5: // healthy tree, escaped markup as text of foreign elements whose names are raw-text elements in HTML
					el := []string{"xmp", "noembed", "noframes", "iframe", "plaintext", "style", "script", "noscript", "textarea", "title"}[k%10]
					ns := []string{"math", "svg"}[(k/10)%2]
					doc := parseHTML(page(`<ul><li>w30q w31q w32q w33q w34q w35q w36q <` + ns + `><` + el + `>` + esc + `</` + el + `></` + ns + `> w37q w38q w39q w40q.</li><li>w41q w42q w43q w44q w45q w46q.</li></ul>`))
					ok = c.c01Tree("parser-stress:foreign-rawtext", doc, "document", r.opts())
				}
				if !ok {
					return
				}
			}
		case sub%64 == 7: // boundary URLs in everything that takes an address apart, and pagers with decorated current pages
			c.Inc("boundary_url_cases")
			c.CPUBound(20 * time.Second) // a few hundred pages of < 2 kB
			hosts := []string{"twitter.com", "www.youtube.com", "player.vimeo.com", "example.com"}
			paths := []string{"", "/", "/status", "/u/status", "/u/status/", "/u/statuses", "/i/web/statuses#top", "/u/status/1/photo", "/status/status", "/embed", "/embed/", "/embed//", "/v", "/v/", "/v/&", "/video", "/video/", "/watch", "/watch?", "/watch?v", "/watch?v=", "/watch?v=&v=", "/watch?v=%", "?", "#", "/?#", "/%", "/%zz", "/a%2", "//", "/..", "/../..", "/&", "&x=1", ":", ":0", ":99999", "@", "/@/", "/ ", "/\t", "/a b", "/\u00e9", "/?page=", "/page/", "/page/0", "/page/-1", "/page/99999999999999999999"}
			schemes := []string{"https://", "//", "", "http://"}
			n := 0
			for hi, h := range hosts {
				for pi, p := range paths {
					sch := schemes[(hi+pi+sub/64)%len(schemes)]
					u := html.EscapeString(sch + h + p)
					doc := `<html><head><title>w1q w2q w3q</title></head><body><p>w3q w4q w5q w6q w7q w8q w9q w10q w11q w12q w13q w14q.</p>` +
						`<blockquote class="twitter-tweet"><p>w20q w21q</p>&mdash; w22q <a href="` + u + `">w23q</a></blockquote>` +
						`<iframe src="` + u + `" data-tweet-id="5"></iframe><iframe src="` + u + `"></iframe>` +
						`<object data="` + u + `" type="application/x-shockwave-flash"></object><object><param name="movie" value="` + u + `"></object>` +
						`<img src="` + u + `" srcset="` + u + ` 1x" width="600" height="400"><video poster="` + u + `"><source src="` + u + `"><track src="` + u + `"></video>` +
						`<p>w30q w31q w32q w33q w34q w35q w36q w37q w38q w39q <a href="` + u + `">w40q</a>.</p><div><a href="` + u + `">1</a> 2 <a href="` + u + `">3</a> <a href="` + u + `">next</a></div></body></html>`
					o := r.opts()
					if n%3 == 0 {
						o = &distiller.Options{OriginalURL: parseOddURL(sch + h + p), PaginationAlgo: distiller.PaginationAlgo(n / 3 % 2)} // the page itself is at that address
					}
					n++
					c.Inc("boundary_url_pages")
					if !c.c01Bytes("boundary-url", doc, o, false) {
						return
					}
				}
			}
			// conventional pagers in every decoration of the current page (hidden notes next to it included), both algorithms
			for fi, fam := range pagerFamilies {
				for deco := 0; deco < 6; deco++ {
					for _, pn := range []bool{false, true} {
						sp := pagerSpec{Fam: fam, N: 3 + (fi+deco)%5, K: 1 + (fi+deco+sub/64)%3, Form: hrefForms[(fi+deco)%len(hrefForms)], Sep: (deco + sub/64) % len(pagerSeps), Deco: deco, Wrap: (fi + sub/64) % 6, PrevNext: pn, Labels: deco % len(nextLabels), WithNums: true}
						pg := conventionalPager(sp, r)
						algo := distiller.PageNumber
						if pn {
							algo = distiller.PrevNext
						}
						c.Inc("decorated_pager_pages")
						if !c.c01Bytes("decorated-pager", pg.HTML, &distiller.Options{OriginalURL: mustURL(pg.PageURL), PaginationAlgo: algo}, false) {
							return
						}
					}
				}
			}
		case sub%64 == 5: // byte streams in encodings other than UTF-8 (with and without byte order mark)
			prof := fullProfile()
			prof.MaxBlocks = 6
			doc := NewArtGen(r, prof).Doc()
			encs := []struct {
				name string
				enc  encoding.Encoding
			}{
				{"utf-16le-bom", unicode.UTF16(unicode.LittleEndian, unicode.UseBOM)}, {"utf-16be-bom", unicode.UTF16(unicode.BigEndian, unicode.UseBOM)},
				{"utf-16le", unicode.UTF16(unicode.LittleEndian, unicode.IgnoreBOM)}, {"utf-32le-bom", utf32.UTF32(utf32.LittleEndian, utf32.UseBOM)},
				{"utf-32be-bom", utf32.UTF32(utf32.BigEndian, utf32.UseBOM)}, {"utf-32be", utf32.UTF32(utf32.BigEndian, utf32.IgnoreBOM)},
				{"utf-8-bom", unicode.UTF8BOM}, {"ebcdic-037", charmap.CodePage037}, {"ibm-1047", charmap.CodePage1047}, {"shift-jis", japanese.ShiftJIS},
				{"euc-kr", korean.EUCKR}, {"gb18030", simplifiedchinese.GB18030}, {"koi8-r", charmap.KOI8R}, {"iso-2022-jp", japanese.ISO2022JP},
			}
			for _, e := range encs {
				b, err := e.enc.NewEncoder().String(doc)
				if err != nil || b == "" {
					continue
				}
				c.Inc("encoded_inputs")
				if !c.c01Bytes("encoded:"+e.name, b, r.opts(), r.Intn(3) == 0) {
					return
				}
			}
		case sub%8 == 0: // size stress
			src, what := bigInput(sub/8, r)
			c.Inc("big_inputs")
			// a calling process with the goroutine stack limit that is the default of Go on
			// 32-bit platforms (250 MB; the 64-bit default is 1 GB): recursion over the
			// nesting depth explored here (<= 2000) fits in it thousands of times over
			defer debug.SetMaxStack(debug.SetMaxStack(250 << 20))
			c.flush()
			for _, algo := range []distiller.PaginationAlgo{distiller.PageNumber, distiller.PrevNext} { // both pagination finders walk the siblings
				c.Inc("big_calls_algo_" + fmt.Sprint(int(algo)))
				if !c.c01Bytes("big:"+what, src, &distiller.Options{OriginalURL: mustURL("http://example.com/a/1"), PaginationAlgo: algo}, false) {
					return
				}
			}
		case sub%8 == 1: // file edge cases
			for _, p := range []string{filepath.Join(c.scratch, "does-not-exist.html"), c.scratch, ""} {
				path := p
				var cr callResult
				c.Calls(1)
				cr.Panic, cr.Stack = c.Guard(func() { cr.Res, cr.Err = distiller.ApplyForFile(path, r.opts()) })
				if !c.c01Check("file-edge", cr, func() any { return map[string]any{"path": path} }) {
					return
				}
				if cr.Err == nil {
					c.Violation("file-edge-no-error", "ApplyForFile on a missing path / directory returned no error", map[string]any{"path": path})
					return
				}
			}
			if !c.c01Bytes("file-edge", "", r.opts(), true) {
				return
			}
		default: // inputs of the other properties' generators
			var src string
			switch sub % 4 {
			case 0:
				src = genMarkupDoc(r).All
			case 1:
				src = genTitleDoc(r)
			case 2:
				src = genTableDoc(r)
			default:
				src = genEmbedDoc(r)
			}
			doc := parseHTML(src)
			if !c.c01Tree("other-generators", doc, "document", r.opts()) {
				return
			}
			if !c.c01Bytes("other-generators", src, r.opts(), false) {
				return
			}
			els := allElements(doc)
			for i := 0; i < 4 && len(els) > 0; i++ {
				if !c.c01Tree("other-generators", detached(els[r.Intn(len(els))]), "detached", r.opts()) {
					return
				}
				c.Inc("roots_detached")
			}
		}
	}
	c.Sample(func() any { return map[string]any{"case": idx, "workload_kind": idx % 8} })
}
