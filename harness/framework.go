package main

import (
	"bufio"
	"bytes"
	"encoding/json"
	"fmt"
	"io"
	"os"
	"os/exec"
	"path/filepath"
	"runtime"
	"runtime/debug"
	"sort"
	"strconv"
	"strings"
	"sync"
	"syscall"
	"time"
)

// ---------------------------------------------------------------------------
// Property registry

type Prop struct {
	ID          string
	Rule        string // how cases are generated and what makes one non-trivial
	Assumptions []string
	Exhaustive  func(tier string) bool
	N           func(tier string) int              // number of cases for a tier
	Run         func(c *Ctx, idx int)              // run case idx; record observations in c
	Floors      func(tier string) map[string]int64 // minimal observation counts (vacuity guard)
	Workers     int                                // 0 = default
	Race        bool                               // needs the -race build
	CPUBound    int                                // seconds of CPU per case before "hang" (0 = default 60)
	PostParent  func(p *Parent)                    // extra parent-side work after workers ended
}

var props = map[string]*Prop{}

func register(p *Prop) { props[p.ID] = p }

// ---------------------------------------------------------------------------
// Worker side

type msg struct {
	T        string            `json:"t"` // "v" violation, "p" partial, "done", "note"
	Idx      int               `json:"idx,omitempty"`
	Sig      string            `json:"sig,omitempty"`
	Msg      string            `json:"msg,omitempty"`
	Wit      json.RawMessage   `json:"wit,omitempty"`
	Calls    int64             `json:"calls,omitempty"`
	Cases    int64             `json:"cases,omitempty"`
	Counters map[string]int64  `json:"counters,omitempty"`
	Sigs     []uint64          `json:"sigs,omitempty"`
	Samples  []json.RawMessage `json:"samples,omitempty"`
}

type Ctx struct {
	Prop   *Prop
	Tier   string
	Seed   uint64
	Shard  int
	Replay bool

	out      *bufio.Writer
	outMu    sync.Mutex
	journal  *os.File
	counters map[string]int64
	sigsNew  []uint64
	sigsSeen map[uint64]struct{}
	samples  []json.RawMessage
	nSamples int
	calls    int64
	cases    int64

	curIdx    int
	caseStart time.Duration // process CPU at case start
	caseBound time.Duration // CPU bound of the case in flight (0 = the property's default)
	caseMu    sync.Mutex
	curInput  func() any // materialised input of the call in flight (for crash witnesses)
	violated  int
	scratch   string
}

func (c *Ctx) Quick() bool { return c.Tier == "quick" }

// RNG for a case: a pure function of (property, seed, idx, stream).
func (c *Ctx) RNG(idx int, stream uint64) *RNG {
	return NewRNG(hashStr(c.Prop.ID), c.Seed, uint64(idx), stream)
}

func (c *Ctx) Count(name string, n int64) { c.counters[name] += n }
func (c *Ctx) Inc(name string)            { c.counters[name]++ }
func (c *Ctx) Calls(n int)                { c.calls += int64(n) }

// Sig records the feature signature of a non-trivial case (distinct ones are counted).
func (c *Ctx) Sig(s string) {
	h := hashStr(s)
	if _, ok := c.sigsSeen[h]; ok {
		return
	}
	c.sigsSeen[h] = struct{}{}
	c.sigsNew = append(c.sigsNew, h)
}

// Sample keeps a few of the actual cases for the evidence file.
func (c *Ctx) Sample(f func() any) {
	if c.nSamples >= 2 {
		return
	}
	c.nSamples++
	b, err := json.Marshal(f())
	if err == nil {
		c.samples = append(c.samples, b)
	}
}

func (c *Ctx) send(m *msg) {
	b, _ := json.Marshal(m)
	c.outMu.Lock()
	c.out.Write(b)
	c.out.WriteByte('\n')
	c.out.Flush()
	c.outMu.Unlock()
}

// Violation reports a refuting observation. sig identifies the *kind* of
// violation (used for de-duplication and known-findings matching).
func (c *Ctx) Violation(sig, text string, witness any) {
	c.violated++
	if c.violated > 40 { // enough witnesses for one worker
		c.Count("violations_suppressed", 1)
		return
	}
	b, _ := json.Marshal(witness)
	c.send(&msg{T: "v", Idx: c.curIdx, Sig: strings.ReplaceAll(sig, " ", "_"), Msg: text, Wit: b})
}

func (c *Ctx) flush() {
	m := &msg{T: "p", Calls: c.calls, Cases: c.cases, Counters: c.counters, Sigs: c.sigsNew, Samples: c.samples}
	c.send(m)
	c.calls, c.cases = 0, 0
	c.counters = map[string]int64{}
	c.sigsNew = nil
	c.samples = nil
}

func cpuNow() time.Duration {
	var ru syscall.Rusage
	syscall.Getrusage(syscall.RUSAGE_SELF, &ru)
	return time.Duration(ru.Utime.Nano() + ru.Stime.Nano())
}

func trunc(s string, n int) string {
	if len(s) <= n {
		return s
	}
	return s[:n] + fmt.Sprintf("...[%d bytes more]", len(s)-n)
}

// panicSig reduces a panic to "message @ first distiller frame".
func panicSig(rec any, stack string) string {
	frame := "?"
	lines := strings.Split(stack, "\n")
	for i, ln := range lines {
		if strings.Contains(ln, "go-domdistiller") && !strings.Contains(ln, "verifharness") && strings.HasPrefix(ln, "github.com/") {
			frame = strings.TrimSpace(ln)
			if j := strings.LastIndex(frame, "("); j > 0 {
				frame = frame[:j]
			}
			_ = i
			break
		}
	}
	m := fmt.Sprint(rec)
	// strip run-dependent numbers
	return "panic:" + stripDigits(trunc(m, 80)) + "@" + frame
}

func stripDigits(s string) string {
	var sb strings.Builder
	prev := false
	for _, r := range s {
		if r >= '0' && r <= '9' {
			if !prev {
				sb.WriteByte('N')
			}
			prev = true
			continue
		}
		prev = false
		sb.WriteRune(r)
	}
	return sb.String()
}

// Guard runs f, converting a panic into an observation. It returns the panic
// signature ("" if none) and the stack.
func (c *Ctx) Guard(f func()) (sig string, stack string) {
	defer func() {
		if rec := recover(); rec != nil {
			stack = string(debug.Stack())
			sig = panicSig(rec, stack)
		}
	}()
	f()
	return
}

func workerMain(p *Prop, tier string, seed uint64, shard, nshards, from, only int, scratch string) {
	c := &Ctx{Prop: p, Tier: tier, Seed: seed, Shard: shard, scratch: scratch,
		out: bufio.NewWriterSize(os.Stdout, 1<<16), counters: map[string]int64{}, sigsSeen: map[uint64]struct{}{}}
	if scratch != "" {
		j, err := os.OpenFile(filepath.Join(scratch, fmt.Sprintf("journal.%d", shard)), os.O_CREATE|os.O_RDWR, 0o644)
		if err == nil {
			c.journal = j
		}
	}
	c.Replay = only >= 0
	bound := time.Duration(p.CPUBound) * time.Second
	if bound == 0 {
		bound = 60 * time.Second
	}
	// CPU watchdog: a case that has burnt more than `bound` of CPU is a hang.
	go func() {
		for {
			time.Sleep(500 * time.Millisecond)
			c.caseMu.Lock()
			start, idx, inp, cb := c.caseStart, c.curIdx, c.curInput, c.caseBound
			c.caseMu.Unlock()
			if start == 0 {
				continue
			}
			if cb == 0 {
				cb = bound
			}
			if used := cpuNow() - start; used > cb {
				buf := make([]byte, 1<<20)
				n := runtime.Stack(buf, true)
				w := map[string]any{"cpu_seconds": used.Seconds(), "goroutines": trunc(string(buf[:n]), 20000)}
				if inp != nil {
					w["input"] = inp()
				}
				b, _ := json.Marshal(w)
				c.send(&msg{T: "hang", Idx: idx, Sig: hangSig(string(buf[:n])), Msg: fmt.Sprintf("case %d consumed %.0fs CPU without returning", idx, used.Seconds()), Wit: b})
				os.Exit(3)
			}
		}
	}()
	n := p.N(tier)
	done := 0
	for idx := from; idx < n; idx++ {
		if only >= 0 {
			if idx != only {
				continue
			}
		} else if int(mix64(uint64(idx))%uint64(nshards)) != shard {
			// cases are dealt to workers by a hash of the index, so that choices
			// derived from idx modulo something are not correlated with the worker
			continue
		}
		if c.journal != nil {
			c.journal.WriteAt([]byte(fmt.Sprintf("%012d\n", idx)), 0)
		}
		c.caseMu.Lock()
		c.curIdx = idx
		c.caseStart = cpuNow()
		c.caseBound = 0
		c.curInput = nil
		c.caseMu.Unlock()
		p.Run(c, idx)
		c.caseMu.Lock()
		c.caseStart = 0
		c.caseMu.Unlock()
		c.cases++
		done++
		if done%100 == 0 {
			c.flush()
		}
	}
	c.flush()
	c.send(&msg{T: "done"})
}

// CPUBound lowers the CPU bound for the rest of the current case (for tiny
// directed inputs, where the default bound would only burn time).
func (c *Ctx) CPUBound(d time.Duration) {
	c.flush() // the case may end the worker: do not lose the counters of the cases before it
	c.caseMu.Lock()
	c.caseBound = d
	c.caseMu.Unlock()
}

const modPath = "github.com/markusmobius/go-domdistiller"

// hangSig names the call site of a non-terminating call: the chain of
// functions from the public entry point of the library inwards (each function
// once), up to and including the first function outside the library (long
// chains keep the entry point, the last two library functions and the function
// called). For a loop inside the library the chain is cut after the 8
// outermost functions, which do not depend on the moment the stack was sampled.
func hangSig(dump string) string {
	best := ""
	for _, g := range strings.Split(dump, "\n\n") {
		if !strings.Contains(g, modPath) {
			continue
		}
		if best == "" || strings.Contains(g, "main.(*Ctx).Guard") {
			best = g
		}
	}
	if best == "" {
		return "hang"
	}
	var fns []string // innermost first
	for _, ln := range strings.Split(best, "\n")[1:] {
		if ln == "" || ln[0] == '\t' || strings.HasPrefix(ln, "created by") {
			continue
		}
		if i := strings.LastIndex(ln, "("); i > 0 {
			ln = ln[:i]
		}
		fns = append(fns, ln)
	}
	// outermost library frame = the entry point
	entry := -1
	for i := len(fns) - 1; i >= 0; i-- {
		if strings.HasPrefix(fns[i], modPath) {
			entry = i
			break
		}
	}
	if entry < 0 {
		return "hang"
	}
	short := func(s string) string {
		if strings.HasPrefix(s, modPath) {
			s = "dd" + strings.TrimPrefix(s, modPath)
			if i := strings.LastIndex(s, "/"); i >= 0 {
				s = "dd/" + s[i+1:]
			}
			return s
		}
		if i := strings.LastIndex(s, "/"); i >= 0 {
			s = s[i+1:]
		}
		return s
	}
	var chain []string
	seen := map[string]bool{}
	external := false
	for i := entry; i >= 0; i-- {
		name := short(fns[i])
		if strings.Contains(name, ".func") { // closures carry compiler-chosen numbers
			continue
		}
		if !seen[name] {
			seen[name] = true
			chain = append(chain, name)
		}
		if !strings.HasPrefix(fns[i], modPath) {
			external = true
			break
		}
	}
	if external && len(chain) > 4 {
		// entry point, the two library functions around the call, the function called
		chain = append([]string{chain[0], ".."}, chain[len(chain)-3:]...)
	} else if !external && len(chain) > 8 {
		chain = chain[:8]
	}
	return "hang:" + strings.Join(chain, ">")
}

// SetInput registers a lazily materialised description of the call in flight
// so that a hang/crash witness can show it.
func (c *Ctx) SetInput(f func() any) {
	c.caseMu.Lock()
	c.curInput = f
	c.caseMu.Unlock()
}

// ---------------------------------------------------------------------------
// Parent side

type violation struct {
	Idx  int
	Sig  string
	Msg  string
	Wit  json.RawMessage
	Path string
}

type Parent struct {
	Prop      *Prop
	Tier      string
	Seed      uint64
	mu        sync.Mutex
	Counters  map[string]int64
	sigs      map[uint64]struct{}
	samples   []json.RawMessage
	calls     int64
	cases     int64
	viols     []violation
	inconcl   int64
	unobs     int64
	notes     []string
	scratch   string
	verifDir  string
	hangs     int             // cases reported as non-terminating so far
	knownSigs map[string]bool // signatures of the listed known findings of this property
}

func (p *Parent) absorb(m *msg) {
	p.mu.Lock()
	defer p.mu.Unlock()
	switch m.T {
	case "p":
		p.calls += m.Calls
		p.cases += m.Cases
		for k, v := range m.Counters {
			p.Counters[k] += v
		}
		for _, s := range m.Sigs {
			p.sigs[s] = struct{}{}
		}
		if len(p.samples) < 5 {
			for _, s := range m.Samples {
				if len(p.samples) < 5 {
					p.samples = append(p.samples, s)
				}
			}
		}
	case "v", "hang":
		p.viols = append(p.viols, violation{Idx: m.Idx, Sig: m.Sig, Msg: m.Msg, Wit: m.Wit})
	case "note":
		p.notes = append(p.notes, m.Msg)
	}
}

type ring struct {
	mu   sync.Mutex
	head []byte // 16 kB from the announcement of a fatal error / panic on (the stack dump after it can be huge)
	buf  []byte
}

func (r *ring) Write(b []byte) (int, error) {
	r.mu.Lock()
	from := b
	if len(r.head) == 0 {
		from = nil
		for _, mark := range []string{"runtime: goroutine stack exceeds", "fatal error:", "panic:"} {
			if i := bytes.Index(b, []byte(mark)); i >= 0 && (i == 0 || b[i-1] == '\n') {
				from = b[i:]
				break
			}
		}
	}
	if k := 1<<14 - len(r.head); k > 0 && len(from) > 0 {
		if k > len(from) {
			k = len(from)
		}
		r.head = append(r.head, from[:k]...)
	}
	r.buf = append(r.buf, b...)
	if len(r.buf) > 1<<17 {
		r.buf = append([]byte{}, r.buf[len(r.buf)-(1<<16):]...)
	}
	r.mu.Unlock()
	return len(b), nil
}

func (p *Parent) runShard(exe string, shard, nshards int, wg *sync.WaitGroup) {
	defer wg.Done()
	from := 0
	restarts := 0
	n := p.Prop.N(p.Tier)
	for from < n {
		p.mu.Lock()
		tooManyHangs := p.hangs >= 4
		p.mu.Unlock()
		if tooManyHangs {
			// every hang costs a full CPU bound; a few witnesses are enough
			p.mu.Lock()
			p.notes = append(p.notes, fmt.Sprintf("shard %d: stopped after several non-terminating cases; remaining cases of this shard not run", shard))
			p.mu.Unlock()
			return
		}
		args := []string{"-worker", "-prop", p.Prop.ID, "-tier", p.Tier, "-seed", strconv.FormatUint(p.Seed, 10),
			"-shard", strconv.Itoa(shard), "-nshards", strconv.Itoa(nshards), "-from", strconv.Itoa(from), "-scratch", p.scratch}
		cmd := exec.Command(exe, args...)
		cmd.Env = append(os.Environ(), "GOMAXPROCS=2")
		if p.Prop.Race {
			cmd.Env = append(os.Environ(), "GORACE=halt_on_error=0 log_path="+filepath.Join(p.scratch, fmt.Sprintf("race.%d", shard)))
		}
		stdout, _ := cmd.StdoutPipe()
		errRing := &ring{}
		cmd.Stderr = errRing
		if err := cmd.Start(); err != nil {
			p.mu.Lock()
			p.notes = append(p.notes, "cannot start worker: "+err.Error())
			p.inconcl++
			p.mu.Unlock()
			return
		}
		gotDone := false
		hang := false
		lastProgress := time.Now()
		var lpMu sync.Mutex
		stop := make(chan struct{})
		// wall-clock watchdog: silence (no message, journal unchanged) => inconclusive
		go func() {
			lastJ := ""
			for {
				select {
				case <-stop:
					return
				case <-time.After(5 * time.Second):
				}
				j, _ := os.ReadFile(filepath.Join(p.scratch, fmt.Sprintf("journal.%d", shard)))
				lpMu.Lock()
				if string(j) != lastJ {
					lastJ = string(j)
					lastProgress = time.Now()
				}
				silent := time.Since(lastProgress)
				lpMu.Unlock()
				if silent > 600*time.Second {
					cmd.Process.Signal(syscall.SIGKILL)
					return
				}
			}
		}()
		rd := bufio.NewReaderSize(stdout, 1<<20)
		for {
			line, err := rd.ReadBytes('\n')
			if len(line) > 0 {
				var m msg
				if json.Unmarshal(line, &m) == nil {
					lpMu.Lock()
					lastProgress = time.Now()
					lpMu.Unlock()
					if m.T == "done" {
						gotDone = true
					} else {
						if m.T == "hang" {
							hang = true
							p.mu.Lock()
							if !p.knownSigs[m.Sig] {
								p.hangs++ // listed findings do not count towards the bail-out
							}
							p.mu.Unlock()
						}
						p.absorb(&m)
					}
				}
			}
			if err != nil {
				break
			}
		}
		werr := cmd.Wait()
		close(stop)
		if gotDone {
			return
		}
		// the worker died: which case was in flight?
		j, _ := os.ReadFile(filepath.Join(p.scratch, fmt.Sprintf("journal.%d", shard)))
		idx, convErr := strconv.Atoi(strings.TrimSpace(string(j)))
		if convErr != nil {
			p.mu.Lock()
			p.notes = append(p.notes, fmt.Sprintf("worker %d died before its first case: %v: %s", shard, werr, trunc(string(errRing.buf), 2000)))
			p.inconcl++
			p.mu.Unlock()
			return
		}
		if !hang {
			tail := string(errRing.buf)
			if len(tail) > 6000 {
				tail = tail[len(tail)-6000:]
			}
			killedBySilence := strings.Contains(fmt.Sprint(werr), "killed")
			w, _ := json.Marshal(map[string]any{"exit": fmt.Sprint(werr), "stderr_head": trunc(string(errRing.head), 4000), "stderr_tail": tail})
			if killedBySilence {
				p.mu.Lock()
				p.inconcl++
				p.notes = append(p.notes, fmt.Sprintf("case %d: worker silent for 600s wall clock; killed (inconclusive)", idx))
				p.mu.Unlock()
			} else {
				sig := "crash:" + crashSig(string(errRing.head)+"\n"+tail)
				p.absorb(&msg{T: "v", Idx: idx, Sig: sig, Msg: fmt.Sprintf("worker process died while running case %d (%v)", idx, werr), Wit: w})
			}
		}
		from = idx + 1
		restarts++
		if restarts > 12 {
			p.mu.Lock()
			p.notes = append(p.notes, fmt.Sprintf("shard %d: too many worker deaths, remaining cases not run", shard))
			p.inconcl++
			p.mu.Unlock()
			return
		}
	}
}

func crashSig(text string) string {
	lines := strings.Split(text, "\n")
	what := ""
	for _, ln := range lines {
		if strings.HasPrefix(ln, "fatal error:") || strings.HasPrefix(ln, "panic:") {
			what = stripDigits(trunc(strings.TrimSpace(ln), 100))
			break
		}
	}
	if what == "" {
		for _, ln := range lines {
			if strings.HasPrefix(ln, "runtime:") {
				what = stripDigits(trunc(strings.TrimSpace(ln), 100))
				break
			}
		}
	}
	if what == "" {
		return "unknown"
	}
	// the innermost function of the library on the crashing stack
	for _, ln := range lines {
		if strings.HasPrefix(ln, modPath) {
			if i := strings.LastIndex(ln, "("); i > 0 {
				ln = ln[:i]
			}
			return strings.ReplaceAll(what, " ", "_") + "@" + strings.TrimPrefix(ln, modPath)
		}
	}
	return strings.ReplaceAll(what, " ", "_")
}

// ---------------------------------------------------------------------------
// Known findings

type finding struct {
	Prop, Sig, Text string
}

func loadFindings(path string) []finding {
	b, err := os.ReadFile(path)
	if err != nil {
		return nil
	}
	var out []finding
	for _, ln := range strings.Split(string(b), "\n") {
		ln = strings.TrimSpace(ln)
		if !strings.HasPrefix(ln, "finding:") {
			continue // "fixed:" lines and comments suppress nothing
		}
		f := finding{Text: ln}
		for _, w := range strings.Fields(ln) {
			if strings.HasPrefix(w, "property=") {
				f.Prop = strings.TrimPrefix(w, "property=")
			}
			if strings.HasPrefix(w, "sig=") {
				f.Sig = strings.TrimPrefix(w, "sig=")
			}
		}
		if f.Prop != "" && f.Sig != "" {
			out = append(out, f)
		}
	}
	return out
}

// ---------------------------------------------------------------------------

func parentMain(p *Prop, tier string, seed uint64, verifDir, outDir string, only int) int {
	start := time.Now()
	exe, _ := os.Executable()
	scratch := filepath.Join(outDir, ".scratch", fmt.Sprintf("%s-%d", p.ID, os.Getpid()))
	os.MkdirAll(scratch, 0o755)
	defer os.RemoveAll(scratch)
	par := &Parent{Prop: p, Tier: tier, Seed: seed, Counters: map[string]int64{}, sigs: map[uint64]struct{}{}, scratch: scratch, verifDir: verifDir, knownSigs: map[string]bool{}}
	for _, f := range loadFindings(filepath.Join(verifDir, "known_findings.txt")) {
		if f.Prop == p.ID {
			par.knownSigs[f.Sig] = true
		}
	}

	nw := p.Workers
	if nw == 0 {
		nw = 16
	}
	if n := p.N(tier); n < nw {
		nw = n
	}
	if only >= 0 {
		// replay of one case, in a child so that a crash is contained
		cmd := exec.Command(exe, "-worker", "-prop", p.ID, "-tier", tier, "-seed", strconv.FormatUint(seed, 10), "-only", strconv.Itoa(only), "-scratch", scratch)
		stdout, _ := cmd.StdoutPipe()
		cmd.Stderr = io.Discard
		cmd.Start()
		rd := bufio.NewReaderSize(stdout, 1<<20)
		done := false
		for {
			line, err := rd.ReadBytes('\n')
			var m msg
			if len(line) > 0 && json.Unmarshal(line, &m) == nil {
				if m.T == "done" {
					done = true
				} else {
					par.absorb(&m)
				}
			}
			if err != nil {
				break
			}
		}
		werr := cmd.Wait()
		if !done && len(par.viols) == 0 {
			par.absorb(&msg{T: "v", Idx: only, Sig: "crash:replay", Msg: fmt.Sprintf("worker died during replay: %v", werr)})
		}
		if len(par.viols) > 0 {
			for _, v := range par.viols {
				fmt.Printf("replay: VIOLATION reproduced property=%s case=%d sig=%s: %s\n", p.ID, v.Idx, v.Sig, v.Msg)
			}
			return 1
		}
		fmt.Printf("replay: property=%s case=%d: no violation observed on the current tree\n", p.ID, only)
		return 0
	}

	var wg sync.WaitGroup
	for w := 0; w < nw; w++ {
		wg.Add(1)
		go par.runShard(exe, w, nw, &wg)
	}
	wg.Wait()
	if p.PostParent != nil {
		p.PostParent(par)
	}

	// verdict
	findings := loadFindings(filepath.Join(verifDir, "known_findings.txt"))
	replayDir := filepath.Join(outDir, "replay", p.ID)
	os.MkdirAll(replayDir, 0o755)
	sort.Slice(par.viols, func(i, j int) bool { return par.viols[i].Idx < par.viols[j].Idx })
	seenSig := map[string]int{}
	exit := 0
	nViol := 0
	knownPrinted := map[string]bool{}
	knownSeen := []string{}
	for i := range par.viols {
		v := &par.viols[i]
		known := false
		for _, f := range findings {
			if f.Prop == p.ID && f.Sig == v.Sig {
				known = true
				if !knownPrinted[f.Sig] {
					knownPrinted[f.Sig] = true
					fmt.Printf("KNOWN-FINDING: %s\n", strings.TrimSpace(strings.TrimPrefix(f.Text, "finding:")))
					knownSeen = append(knownSeen, f.Sig)
				}
			}
		}
		if known {
			continue
		}
		nViol++
		seenSig[v.Sig]++
		if seenSig[v.Sig] > 3 || len(seenSig) > 12 {
			continue
		}
		path := filepath.Join(replayDir, fmt.Sprintf("%s-seed%d-case%d-%x.json", tier, seed, v.Idx, hashStr(v.Sig)&0xffff))
		w := map[string]any{"property": p.ID, "tier": tier, "seed": seed, "case": v.Idx, "sig": v.Sig, "message": v.Msg, "witness": v.Wit}
		b, _ := json.MarshalIndent(w, "", " ")
		os.WriteFile(path, b, 0o644)
		fmt.Printf("%s case=%d sig=%s\n  %s\n", p.ID, v.Idx, v.Sig, trunc(v.Msg, 600))
		fmt.Printf("VIOLATION property=%s replay=%s\n", p.ID, path)
		exit = 1
	}

	// vacuity guard
	var low []string
	if p.Floors != nil {
		fl := p.Floors(tier)
		keys := make([]string, 0, len(fl))
		for k := range fl {
			keys = append(keys, k)
		}
		sort.Strings(keys)
		for _, k := range keys {
			if par.Counters[k] < fl[k] {
				low = append(low, fmt.Sprintf("%s=%d<%d", k, par.Counters[k], fl[k]))
			}
		}
	}

	// evidence
	cov := map[string]any{
		"evaluations":         par.calls,
		"cases":               par.cases,
		"distinct_nontrivial": len(par.sigs),
		"rule":                p.Rule,
		"samples":             par.samples,
		"observed":            par.Counters,
		"inconclusive":        par.inconcl,
		"known_findings_seen": knownSeen,
		"workers":             nw,
	}
	if p.Exhaustive != nil && p.Exhaustive(tier) {
		cov["exhaustive"] = true
	}
	if len(par.notes) > 0 {
		cov["notes"] = par.notes
	}
	if len(low) > 0 {
		cov["below_floor"] = low
	}
	if par.samples == nil {
		cov["samples"] = []any{}
	}
	ev := map[string]any{
		"property_id": p.ID, "tier": tier, "seed": seed, "level": "exploration",
		"coverage": cov, "assumptions": p.Assumptions, "wall_s": time.Since(start).Seconds(), "violations": nViol,
	}
	b, _ := json.MarshalIndent(ev, "", " ")
	os.MkdirAll(filepath.Join(outDir, "evidence"), 0o755)
	tmp := filepath.Join(outDir, "evidence", fmt.Sprintf(".%s.%d.tmp", p.ID, os.Getpid()))
	os.WriteFile(tmp, b, 0o644)
	os.Rename(tmp, filepath.Join(outDir, "evidence", p.ID+".json"))

	// human summary
	keys := make([]string, 0, len(par.Counters))
	for k := range par.Counters {
		keys = append(keys, k)
	}
	sort.Strings(keys)
	fmt.Printf("%s %s seed=%d: cases=%d calls=%d distinct_nontrivial=%d violations=%d inconclusive=%d wall=%.1fs\n",
		p.ID, tier, seed, par.cases, par.calls, len(par.sigs), nViol, par.inconcl, time.Since(start).Seconds())
	for _, k := range keys {
		fmt.Printf("  %-40s %d\n", k, par.Counters[k])
	}
	for _, n := range par.notes {
		fmt.Println("  note:", trunc(n, 400))
	}
	if exit == 0 && len(low) > 0 {
		fmt.Printf("INCONCLUSIVE property=%s: the monitors observed too little to say anything (%s)\n", p.ID, strings.Join(low, ", "))
		return 2
	}
	if exit == 0 {
		fmt.Printf("HELD property=%s on everything observed\n", p.ID)
	}
	return exit
}
