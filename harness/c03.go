package main

import (
	"fmt"
	"strings"
)

// C03 — a simple paragraph is kept or dropped as a whole.
//
// Two sources of paragraphs: (a) the paragraphs of random G-article pages
// (attribute-free inline markup, javascript: anchors included), and (b) an
// enumeration of child sequences of length <= 4 over
// {text, br, inline, link, js-link(1 text child), js-link(other)}, each
// sequence embedded as one paragraph in a small article at a body / li /
// blockquote / layout-td / data-td placement.

var c03Alphabet = []string{"t", "br", "i", "a", "j1", "jn"}

func c03NumSeq() int { // sequences of length 1..4
	n := 0
	p := 1
	for l := 1; l <= 4; l++ {
		p *= len(c03Alphabet)
		n += p
	}
	return n
}

func c03Seq(k int) []string {
	for l := 1; l <= 4; l++ {
		p := 1
		for i := 0; i < l; i++ {
			p *= len(c03Alphabet)
		}
		if k < p {
			out := make([]string, l)
			for i := 0; i < l; i++ {
				out[i] = c03Alphabet[k%len(c03Alphabet)]
				k /= len(c03Alphabet)
			}
			return out
		}
		k -= p
	}
	return nil
}

var c03Places = []string{"body", "li", "blockquote", "layout-td", "data-td", "body-loose", "div-loose", "deep-div"}

func init() {
	register(&Prop{
		ID:   "C03",
		Rule: "even cases: random G-article pages whose paragraphs use only text, <br>, attribute-free b/i/em/strong/span/u/code/font, links and javascript: links; odd cases: the enumeration of all child sequences of length <=4 over {text, br, inline, link, js-link with one text child, js-link with other children} (1554 sequences) x 8 placements (body, li, blockquote, layout td, data td, loose text directly in <body>, loose text in a <div>, under 20..420 nested wrapper divs), each as one paragraph inside a small article, with paragraph lengths chosen around the keep/drop boundary. Non-trivial = a simple paragraph observed fully kept or fully dropped; distinct = distinct (placement, child-sequence shape, kept/dropped).",
		Assumptions: []string{
			"'visible word of the paragraph' = token the generator wrote into that <p>",
			"inline elements carrying class/id/rel/itemprop are not generated (byline/share/unlikely rules legitimately remove those)",
		},
		Exhaustive: func(tier string) bool { return false },
		N: func(tier string) int {
			if tier == "quick" {
				return 40000
			}
			return 2 * c03NumSeq() * len(c03Places) * 12
		},
		Floors: func(tier string) map[string]int64 {
			return map[string]int64{"paras_fully_kept": 3000, "paras_fully_dropped": 300, "paras_with_js_anchor": 500}
		},
		Run: runC03,
	})
}

func runC03(c *Ctx, idx int) {
	var ar *artRun
	var ok bool
	if idx%2 == 0 {
		prof := Profile{Inline: true, JSAnchors: true, Headings: true, Lists: true, Quotes: true, Pre: true, Images: true,
			DataTables: true, LayoutTables: true, Chrome: true, Wrappers: true, ShortBias: 300}
		ar, ok = c.runArticle(idx, prof, nil)
	} else {
		ar, ok = c.runC03Enum(idx)
	}
	if !ok {
		return
	}
	L := ar.G.L
	kept := tokenSet(rxTok.FindAllString(ar.Res.Text, -1))
	for pi, p := range L.Paras {
		if !p.Simple || len(p.Toks) == 0 {
			continue
		}
		n := 0
		var missing, present []string
		for _, t := range p.Toks {
			s := fmt.Sprintf("w%dq", t)
			if kept[s] {
				n++
				present = append(present, s)
			} else {
				missing = append(missing, s)
			}
		}
		js := strings.Contains(p.Shape, "j")
		if js {
			c.Inc("paras_with_js_anchor")
		}
		switch {
		case n == len(p.Toks):
			c.Inc("paras_fully_kept")
			c.Inc("kept_in_" + p.Place)
			c.Sig(p.Place + "|" + p.Shape + "|kept")
		case n == 0:
			c.Inc("paras_fully_dropped")
			c.Inc("dropped_in_" + p.Place)
			c.Sig(p.Place + "|" + p.Shape + "|dropped")
		default:
			sig := "cut:" + p.Place
			if js {
				sig += ":js"
			}
			c.Violation(sig, fmt.Sprintf("paragraph %d (%s, children %s) is cut: %d of %d words emitted; missing e.g. %s, present e.g. %s",
				pi, p.Place, p.Shape, n, len(p.Toks), missing[0], present[0]),
				ar.witness(map[string]any{"paragraph": pi, "shape": p.Shape, "missing": missing, "present": present}))
			return
		}
	}
	c.Sample(func() any { return map[string]any{"case": idx, "mode": ar.Mode, "html": trunc(ar.Src, 1200)} })
}

// runC03Enum builds the enumerated paragraph of case idx.
func (c *Ctx) runC03Enum(idx int) (*artRun, bool) {
	k := idx / 2
	nseq := c03NumSeq()
	seq := c03Seq(k % nseq)
	place := c03Places[(k/nseq)%len(c03Places)]
	variant := k / (nseq * len(c03Places))
	r := c.RNG(idx, 7)
	g := NewArtGen(r, Profile{})
	g.w("<html><head><title>" + g.tokK(KTitle, "title") + "</title></head><body><div>\n")
	long := func() { g.paragraph(25 + r.Intn(40)) }
	// context: 0-2 long paragraphs before, target, 0-2 after; variant drives sizes
	nb := (variant + r.Intn(3)) % 3
	na := r.Intn(3)
	for i := 0; i < nb; i++ {
		long()
	}
	// word budget per child: small or large, so that the paragraph lands on both sides of keep/drop
	per := []int{1, 2, 4, 9, 18}[(variant+r.Intn(5))%5]
	target := func() {
		g.L.Paras = append(g.L.Paras, ParaInfo{Place: place, Simple: true, Shape: strings.Join(seq, ",")})
		id := len(g.L.Paras) - 1
		g.curPara = id
		g.push(place)
		open, close := "<p>", "</p>\n"
		switch place {
		case "body-loose":
			// loose text directly in <body>, between block-level siblings
			open, close = "</div>\n", "\n<div>"
		case "div-loose":
			open, close = "<div>", "</div>\n"
		}
		g.w(open)
		for _, s := range seq {
			n := 1 + r.Intn(per)
			switch s {
			case "t":
				g.w(" " + g.toks(n) + " ")
			case "br":
				g.w("<br>")
			case "i":
				t := inlineTags[r.Intn(len(inlineTags))]
				g.w("<" + t + ">" + g.toks(n) + "</" + t + ">")
			case "a":
				// plain paths, and (round 6) query strings built from the keywords the converter looks for in
				// wiki "edit section" links — in the other order, far apart, or as parts of longer names; never
				// the adjacent pair "action=edit" + "&section=", which is the one form that is skipped on purpose.
				// Chosen by a hash of the position: no PRNG draw is added.
				ln := fmt.Sprint(len(g.L.Toks))
				href := "/l/" + ln + ".html"
				switch mix64(uint64(len(g.L.Toks))*31+uint64(k)) % 10 {
				case 0:
					href = "/news?action=edition&section=sports&n=" + ln
				case 1:
					href = "/desk?section=local&action=editorial&n=" + ln
				case 2:
					href = "index.php?title=T" + ln + "&action=edit&redlink=1&subsection=2"
				case 3:
					href = "/w/index.php?section=3&action=edit&n=" + ln
				case 4:
					href = "/w/index.php?title=T" + ln + "&action=edit&redlink=1"
				}
				g.w(` <a href="` + href + `">` + g.toks(n) + `</a> `)
			case "j1":
				g.w(`<a href="javascript:void(0)">` + g.toks(n) + `</a>`)
			case "jn":
				switch r.Intn(3) {
				case 0:
					g.w(`<a href="javascript:go()"><i>` + g.toks(n) + `</i></a>`)
				case 1:
					g.w(`<a href="javascript:go()">` + g.toks(n) + `<br>` + g.toks(1) + `</a>`)
				default:
					g.w(`<a href="javascript:go()"></a>`)
				}
			}
		}
		g.w(close)
		g.pop()
		g.curPara = -1
	}
	switch place {
	case "body", "body-loose", "div-loose":
		target()
	case "deep-div":
		// the paragraph sits under many wrapper elements (legal, if unusual, nesting)
		depth := 20 + (k*13)%400
		g.w(strings.Repeat("<div>", depth))
		target()
		g.w(strings.Repeat("</div>", depth))
	case "li":
		g.w("<ul><li>" + g.toks(1+r.Intn(3)) + "</li><li>")
		target()
		g.w("</li></ul>\n")
	case "blockquote":
		g.w("<blockquote>")
		target()
		g.w("</blockquote>\n")
	case "layout-td":
		g.w(`<table role="presentation"><tr><td>`)
		target()
		g.w("</td></tr></table>\n")
	case "data-td":
		g.curTab = 0
		g.w(`<table><tr><th>` + g.toks(1) + `</th><th>` + g.toks(1) + `</th></tr><tr><td>`)
		target()
		g.w(`</td><td>` + g.toks(2) + `</td></tr><tr><td>` + g.toks(1) + `</td><td>` + g.toks(1) + `</td></tr></table>` + "\n")
		g.curTab = -1
	}
	for i := 0; i < na; i++ {
		long()
	}
	g.w("</div></body></html>")
	src := g.sb.String()
	ar := &artRun{Src: src, G: g, Mode: "reader"}
	c.SetInput(func() any { return map[string]any{"html": src} })
	cr := c.applyReader(src, nil)
	if !c.usable(cr) {
		return ar, false
	}
	ar.Res = cr.Res
	c.Inc("enum_cases")
	return ar, true
}
