package main

import (
	"fmt"
	"html"
	"strings"
)

// G-article: article-like pages built from a block grammar, together with a
// ledger that records, for every token / URL reference / media element, what
// it is by construction. Bytes are pure ASCII (non-ASCII as entities).

type TokKind int

const (
	KText        TokKind = iota // visible text that forms text blocks
	KCaption                    // figure caption text
	KCell                       // data-table cell text
	KHidden                     // script/style/head/comment/hidden: must never be emitted
	KSkipped                    // form controls, noscript, svg, object, embed, applet, unrecognised iframe
	KPlaceholder                // text of a recognised embed (only inside the placeholder, never in Text)
	KTitle                      // tokens of <title>
	KAttr                       // text that exists only in an attribute value (img alt, title=...): never visible text
)

func (k TokKind) String() string {
	return [...]string{"text", "caption", "cell", "hidden", "skipped", "placeholder", "title", "attr"}[k]
}

type TokInfo struct {
	Kind   TokKind
	Sub    string // carrier kind for hidden/skipped ("script", "display-none", "button", ...)
	Place  string // placement of the carrier
	Para   int    // simple-paragraph id (C03), -1 if none
	Table  int    // enclosing data table id, -1 if none
	Figure int    // enclosing figure id, -1 if none
}

type ParaInfo struct {
	Place  string
	Toks   []int
	Shape  string // child sequence, e.g. "t,i,j1,t"
	Simple bool
}

type RefInfo struct {
	ID      string // "u12z"
	Raw     string
	Expect  string // expected value in the output when a page URL is supplied
	Form    string // reference form
	Carrier string // "a", "img", "source", ...
	Where   string // "text", "caption", "table", "image", "figure", "video", ...
	Attr    string
}

type MediaInfo struct {
	ID      string // URL id that identifies it in the output
	Kind    string // img figure video embed table
	PrevTok int    // last text-block token before it (0 = none)
	Where   string // placement
}

type TableInfo struct {
	ID    int
	Mark  string    // unique token in the first cell
	Rows  [][][]int // rows -> cells -> tokens
	Data  bool
	Where string
}

type Ledger struct {
	Toks   []TokInfo // index = token number (0 unused)
	Paras  []ParaInfo
	Refs   map[string]*RefInfo
	RefSeq []string
	Media  []MediaInfo
	Tables []TableInfo
	Title  string
	Kinds  map[string]int // block kinds generated
	MXSS   int            // mXSS carriers written
}

type Profile struct {
	Inline        bool // inline formatting inside paragraphs
	InlineAttrs   bool // inline elements may carry attributes (hidden spans...) -> paragraphs not "simple"
	JSAnchors     bool
	Headings      bool
	Lists         bool
	Quotes        bool
	Pre           bool
	Images        bool
	Figures       bool
	Videos        bool
	Embeds        bool
	Twitter       bool
	DataTables    bool
	LayoutTables  bool
	Chrome        bool
	Wrappers      bool
	Hidden        bool // hidden / script / style / comment carriers
	Skipped       bool // form controls, noscript, svg, ...
	AttrNoise     bool
	RelURLs       bool // all reference forms (otherwise root-relative only)
	MediaInText   bool // media inside paragraphs / list items
	NeverRendered bool // <template>, <noembed>, <noframes> with text
	H1Fallback    bool // the page opens with an <h1> that holds a <noscript> image fallback (the title falls back to it when <title> is short)
	OddSpaces     bool // words separated by no-break and other non-ASCII spaces
	Glue          bool // words that continue across inline element, <wbr> and comment boundaries
	MXSS          bool // inert text that serialise+parse can turn into live markup (foreign content)
	Punct         bool // attach / detach punctuation around words
	NonASCII      bool // sprinkle non-ASCII filler words between tokens (only for pages delivered as trees)
	Unlikely      int  // per-mille of wrappers that carry an "unlikely content" class / id / role
	ShortBias     int  // per-mille of short paragraphs
	MinBlocks     int
	MaxBlocks     int
	PageURL       string
	TitleWords    int
}

type ArtGen struct {
	r       *RNG
	sb      strings.Builder
	L       *Ledger
	P       Profile
	lastTxt int
	nref    int
	nnoise  int
	curPara int
	curTab  int
	curFig  int
	place   []string
	depth   int
}

func NewArtGen(r *RNG, p Profile) *ArtGen {
	if p.PageURL == "" {
		p.PageURL = "http://example.com/dir/sub/page.html"
	}
	if p.MaxBlocks == 0 {
		p.MinBlocks, p.MaxBlocks = 3, 14
	}
	return &ArtGen{r: r, P: p, curPara: -1, curTab: -1, curFig: -1,
		L: &Ledger{Toks: make([]TokInfo, 1, 512), Refs: map[string]*RefInfo{}, Kinds: map[string]int{}}}
}

func (g *ArtGen) w(s string) { g.sb.WriteString(s) }

func (g *ArtGen) curPlace() string {
	if len(g.place) == 0 {
		return "body"
	}
	return g.place[len(g.place)-1]
}

func (g *ArtGen) push(p string) { g.place = append(g.place, p) }
func (g *ArtGen) pop()          { g.place = g.place[:len(g.place)-1] }

func (g *ArtGen) tokK(kind TokKind, sub string) string {
	n := len(g.L.Toks)
	g.L.Toks = append(g.L.Toks, TokInfo{Kind: kind, Sub: sub, Place: g.curPlace(), Para: g.curPara, Table: g.curTab, Figure: g.curFig})
	if g.curPara >= 0 {
		g.L.Paras[g.curPara].Toks = append(g.L.Paras[g.curPara].Toks, n)
	}
	if kind == KText {
		g.lastTxt = n
	}
	return fmt.Sprintf("w%dq", n)
}

// textKind is the kind a visible token has at the current position.
func (g *ArtGen) textKind() TokKind {
	if g.curFig >= 0 {
		return KCaption
	}
	if g.curTab >= 0 {
		return KCell
	}
	return KText
}

// fillerWords are the only words besides tokens that generated pages contain.
// glueSuffixes continue a word after the end of an inline element.
var glueSuffixes = []string{"s", "ing", "ed", "'s"}

// escapedLiterals are words whose source form uses character references for
// characters that look like markup; {source form, visible word}.
var escapedLiterals = [][2]string{{"caf&amp;eacute;", "caf&eacute;"}, {"&lt;Integer&gt;", "<Integer>"}, {"&amp;lt;b&amp;gt;", "&lt;b&gt;"}, {"a&lt;b", "a<b"}, {"&amp;amp;", "&amp;"}}

var nonASCIIFillers = []string{"città", "Århus", "Šiauliai", "naïve", "Рх", "straße", "déjà", "œuvre", "Ελλάδα", "señor", "Ünal", "†", `|\/|`, `|\/|4573R`, "re\u0301sume\u0301", "soft\u00adhyphen", "\u212bngstr\u00f6m"}

func (g *ArtGen) toks(n int) string {
	k := g.textKind()
	parts := make([]string, n)
	for i := range parts {
		parts[i] = g.tokK(k, "")
		if g.P.NonASCII && g.r.Intn(6) == 0 {
			parts[i] += " " + nonASCIIFillers[g.r.Intn(len(nonASCIIFillers))]
		}
		if g.P.Punct {
			switch g.r.Intn(12) {
			case 0:
				parts[i] += ","
			case 1:
				parts[i] += " ,"
			case 2:
				parts[i] += "."
			case 3:
				parts[i] += " !"
			case 4:
				parts[i] = "( " + parts[i] + " )"
			case 5:
				parts[i] = "(" + parts[i] + ")"
			case 6:
				parts[i] += " ; -"
			case 7:
				parts[i] += " ?"
			}
		}
	}
	if g.P.OddSpaces && n > 1 && g.r.Chance(1, 5) {
		// white space that is not ASCII: still white space (written as character references)
		return strings.Join(parts, []string{"&nbsp;", "&emsp;", "&#x2009;", " &nbsp; ", "&#x3000;"}[g.r.Intn(5)])
	}
	return strings.Join(parts, " ")
}

func (g *ArtGen) toksK(n int, kind TokKind, sub string) string {
	parts := make([]string, n)
	for i := range parts {
		parts[i] = g.tokK(kind, sub)
	}
	return strings.Join(parts, " ")
}

// noise returns attribute noise for an element (C05).
func (g *ArtGen) noise() string {
	if !g.P.AttrNoise {
		return ""
	}
	g.nnoise++
	n := g.nnoise
	dup := ""
	if n%5 == 0 {
		// template-generated pages repeat attributes; the parser keeps every occurrence
		dup = fmt.Sprintf(` class="zcd%d" id="zid%d" style="margin:%dpx" onclick="zod%d()"`, n, n, n%9, n)
		if n%10 == 0 {
			// ... and more than once
			dup += fmt.Sprintf(` class="zce%d" id="zie%d" style="padding:%dpx" class="zcf%d" id="zif%d"`, n, n, n%7, n, n)
		}
	}
	if n%7 == 3 {
		// a page element that dresses up as the distiller's own embed placeholder
		return fmt.Sprintf(` id="zi%d" class="embed-placeholder" data-type="youtube" data-id="forged%d" style="color:#%03d" onclick="zo%d()"`, n, n, n%1000, n)
	}
	// every event handler content attribute HTML knows, in rotation
	h := eventHandlers[n%len(eventHandlers)]
	return fmt.Sprintf(` id="zi%d" class="zc%d" style="color:#%03d" onclick="zo%d()" onload="zl%d()" %s="zh%d()" data-x="zd%d" zunk="zu%d" data-verif-mark="zm%d"`, n, n, n%1000, n, n, h, n, n, n, n) + dup
}

var eventHandlers = strings.Fields(`onabort onafterprint onanimationend onanimationiteration onanimationstart onauxclick onbeforecopy onbeforecut onbeforeinput
	onbeforematch onbeforepaste onbeforeprint onbeforetoggle onbeforeunload onblur oncancel oncanplay oncanplaythrough onchange onclose oncommand
	oncontentvisibilityautostatechange oncontextlost oncontextmenu oncontextrestored oncopy oncuechange oncut ondblclick ondrag ondragend ondragenter
	ondragleave ondragover ondragstart ondrop ondurationchange onemptied onended onerror onfocus onfocusin onfocusout onformdata onfullscreenchange
	onfullscreenerror ongotpointercapture onhashchange oninput oninvalid onkeydown onkeypress onkeyup onlanguagechange onloadeddata onloadedmetadata
	onloadstart onlostpointercapture onmessage onmessageerror onmousedown onmouseenter onmouseleave onmousemove onmouseout onmouseover onmouseup
	onmousewheel onoffline ononline onpagehide onpageshow onpaste onpause onplay onplaying onpointercancel onpointerdown onpointerenter onpointerleave
	onpointermove onpointerout onpointerover onpointerrawupdate onpointerup onpopstate onprogress onratechange onreset onresize onscroll onscrollend
	onscrollsnapchange onscrollsnapchanging onsearch onsecuritypolicyviolation onseeked onseeking onselect onselectionchange onselectstart onslotchange
	onstalled onstorage onsubmit onsuspend ontimeupdate ontoggle ontouchcancel ontouchend ontouchmove ontouchstart ontransitioncancel ontransitionend
	ontransitionrun ontransitionstart onunhandledrejection onunload onvolumechange onwaiting onwebkitanimationend onwebkitfullscreenchange onwheel onzzfuture`)

// noiseClass is noise for an element that needs a functional class value.
func (g *ArtGen) noiseClass(class string) string {
	if !g.P.AttrNoise {
		return fmt.Sprintf(` class="%s"`, class)
	}
	g.nnoise++
	n := g.nnoise
	return fmt.Sprintf(` id="zi%d" class="%s zc%d" style="color:#%03d" onclick="zo%d()" data-x="zd%d" zunk="zu%d"`, n, class, n, n%1000, n, n, n)
}

// ---------------------------------------------------------------------------
// URL references (C06)

var refForms = []string{"path", "dot", "dotdot", "root", "scheme", "query", "abs", "frag", "data", "js", "bad", "embedded", "proxy", "comma", "pad-path", "pad-root", "js-case", "data-case", "enc-slash", "enc-query", "nfd", "utf8-path"}

func splitPage(page string) (origin, dir, path string) {
	// page is http://host/a/b/c.html[?q][#f]
	rest := page
	if i := strings.IndexAny(rest, "?#"); i >= 0 {
		rest = rest[:i]
	}
	i := strings.Index(rest, "://")
	j := strings.Index(rest[i+3:], "/")
	origin = rest[:i+3+j]
	path = rest[i+3+j:]
	dir = path[:strings.LastIndex(path, "/")+1]
	return
}

// ref creates a URL reference of a random (or the given) form for a carrier.
func (g *ArtGen) ref(carrier, attr, where, ext string, forms []string) string {
	g.nref++
	id := fmt.Sprintf("u%dz", g.nref)
	form := "root"
	if len(forms) == 1 {
		form = forms[0]
	} else if g.P.RelURLs {
		form = forms[g.r.Intn(len(forms))]
	}
	origin, dir, path := splitPage(g.P.PageURL)
	var raw, exp string
	switch form {
	case "path":
		raw = "rel/" + id + ext
		exp = origin + dir + raw
	case "dot":
		raw = "./rel/" + id + ext
		exp = origin + dir + "rel/" + id + ext
	case "dotdot":
		raw = "../up/" + id + ext
		d := strings.TrimSuffix(dir, "/")
		d = d[:strings.LastIndex(d, "/")+1]
		exp = origin + d + "up/" + id + ext
	case "root":
		raw = "/root/" + id + ext
		exp = origin + raw
	case "scheme":
		raw = "//cdn.example.net/s/" + id + ext
		exp = origin[:strings.Index(origin, ":")+1] + raw
	case "query":
		raw = "?q=" + id
		exp = origin + path + raw
	case "abs":
		raw = "https://other.example.org/a/" + id + ext
		exp = raw
	case "frag":
		raw = "#" + id
		exp = raw
	case "data":
		raw = "data:image/gif," + id
		exp = raw
	case "js":
		raw = "javascript:void('" + id + "')"
		exp = raw
	case "nfd": // an absolute URL with a decomposed accent and a soft hyphen: passed through unchanged, byte for byte
		raw = "http://other.example/re\u0301sume\u0301/soft\u00adhyphen/" + id + ext
		exp = raw
	case "utf8-path": // raw non-ASCII letters whose UTF-8 bytes end in 0xA0 / 0x85 (a no-break space / next line when read as bytes)
		raw = "/img/voil\u00e0-\u00c5-\u0420\u0445-" + id + ext
		exp = origin + "/img/voil%C3%A0-%C3%85-%D0%A0%D1%85-" + id + ext
	case "js-case": // the scheme of an URL is case-insensitive; the reference passes through unchanged
		raw = "JavaScript:show('#" + id + " tab')"
		exp = raw
	case "data-case":
		raw = "Data:text/plain," + id + "#a b"
		exp = raw
	case "enc-slash": // an escaped reserved character next to a character that has to be escaped
		raw = "/wiki/" + id + "%2FDC discography" + ext
		exp = origin + "/wiki/" + id + "%2FDC%20discography" + ext
	case "enc-query": // likewise, with a non-ASCII letter
		raw = "caf\u00e9%3Fx/" + id + ext
		exp = origin + dir + "caf%C3%A9%3Fx/" + id + ext
	case "bad":
		raw = "http://[bad/" + id + ext
		exp = raw
	case "embedded": // a relative reference that carries another URL in its query
		raw = "/out/" + id + "?to=http://other.example/x&u=https://third.example/y"
		exp = origin + raw
	case "proxy": // ... or in its path
		raw = "/proxy/800x600/https://cdn.example.net/" + id + ext
		exp = origin + raw
	case "pad-path": // white space around the value (HTML strips it from URL attributes)
		raw = "  rel/" + id + ext + " "
		exp = origin + dir + "rel/" + id + ext
	case "pad-frag": // a fragment-only reference with white space in front of it is still fragment-only
		raw = []string{" ", "\n", "\t "}[g.r.Intn(3)] + "#" + id
		exp = "#" + id
	case "pad-root":
		raw = "\n\t/root/" + id + ext + "\n"
		exp = origin + "/root/" + id + ext
	case "comma": // commas inside a URL (CDN transformation paths)
		raw = "/cdn/w_400,h_300/" + id + ext
		exp = origin + raw
	}
	ri := &RefInfo{ID: id, Raw: raw, Expect: exp, Form: form, Carrier: carrier, Where: where, Attr: attr}
	g.L.Refs[id] = ri
	g.L.RefSeq = append(g.L.RefSeq, id)
	return raw
}

var linkForms = []string{"path", "dot", "dotdot", "root", "scheme", "query", "abs", "frag", "data", "bad", "js", "path", "root", "embedded", "proxy", "comma", "pad-path", "pad-root", "js-case", "data-case", "enc-slash", "enc-query", "nfd", "pad-frag"}
var mediaForms = []string{"path", "dot", "dotdot", "root", "scheme", "abs", "path", "root", "query", "embedded", "proxy", "comma", "pad-path", "pad-root", "enc-slash", "enc-query", "nfd", "utf8-path"}
var srcsetForms = []string{"path", "dot", "dotdot", "root", "scheme", "abs", "comma", "proxy", "utf8-path"}

func (g *ArtGen) where() string {
	if g.curFig >= 0 {
		return "caption"
	}
	if g.curTab >= 0 {
		return "table"
	}
	return "text"
}

// ---------------------------------------------------------------------------
// inline content

// glueTags: phrasing elements inside which a word may start or end (1<sup>st</sup>, 12<small>%</small>).
var glueTags = []string{"b", "i", "em", "strong", "span", "u", "code", "font", "small", "big", "strike", "samp", "nobr", "sub", "sup", "abbr", "cite", "mark", "s", "var", "kbd", "tt"}

var inlineTags = []string{"b", "i", "em", "strong", "span", "u", "code", "font"}

// hiddenInline emits an inline hidden carrier.
// mxssPayload is inert where the generator puts it: it is text (escaped, or
// the content of a raw-text element).
const mxssPayload = `<img src=x onerror=zo() id=zi class=zc style=color:red><script>zs()</script><style>p{color:red}</style>`

// mxssInline writes markup whose text content looks like active markup. In
// the source it is text; it stays text only as long as the element names and
// namespaces around it survive serialisation and parsing unchanged.
func (g *ArtGen) mxssInline(allowTable bool) {
	n := 2
	if allowTable {
		n = 3
	}
	switch g.r.Intn(n) {
	case 0: // elements that are raw-text elements in HTML, used as (unknown) MathML / SVG elements
		el := []string{"xmp", "noembed", "noframes", "iframe", "noscript"}[g.r.Intn(5)]
		ns := []string{"math", "math", "svg"}[g.r.Intn(3)]
		g.w(` <` + ns + `><` + el + `>` + html.EscapeString(mxssPayload) + `</` + el + `></` + ns + `> `)
	case 1: // an HTML integration point that exists through an attribute
		g.w(` <math><annotation-xml encoding="text/html">x<xmp>` + mxssPayload + `</xmp></annotation-xml></math> `)
	case 2: // an HTML element fostered out of a table inside a MathML text integration point
		g.w(` <math><mtext><table><mglyph><xmp></math>` + mxssPayload + `</xmp></mglyph></table></mtext></math> `)
	}
	g.L.MXSS++
}

func (g *ArtGen) hiddenInline() {
	if g.P.MXSS && g.r.Chance(1, 3) {
		g.mxssInline(false)
		return
	}
	switch g.r.Intn(5) {
	case 0:
		g.w(` <span style="display:none">` + g.toksK(2, KHidden, "display-none") + `</span> `)
	case 1:
		g.w(` <span hidden>` + g.toksK(2, KHidden, "hidden-attr") + `</span> `)
	case 2:
		g.w(` <span style="visibility:hidden">` + g.toksK(1, KHidden, "vis-hidden") + `</span> `)
	case 3:
		g.w(` <span aria-hidden="true">` + g.toksK(1, KHidden, "aria-hidden") + `</span> `)
	case 4:
		g.w(` <!-- ` + g.toksK(2, KHidden, "comment") + ` --> `)
	}
}

// inlineRun writes about n visible words with inline markup; it returns the
// shape of the child sequence.
func (g *ArtGen) inlineRun(n int) string {
	var shape []string
	for n > 0 {
		k := 1 + g.r.Intn(8)
		if k > n {
			k = n
		}
		n -= k
		c := 9
		if g.P.Inline {
			c = g.r.Intn(12)
		}
		switch {
		case (c == 0 || c == 1) && g.P.Glue && g.r.Chance(1, 3):
			// a word that starts or ends outside the inline element / is broken by <wbr> or a comment
			t := glueTags[g.r.Intn(len(glueTags))]
			suffix := glueSuffixes[g.r.Intn(len(glueSuffixes))]
			switch g.r.Intn(4) {
			case 0:
				g.w(" <" + t + ">" + g.toks(k) + "</" + t + ">" + suffix + " ")
			case 1:
				g.w(" un<" + t + ">" + g.toks(k) + "</" + t + "> ")
			case 2:
				g.w(" " + g.toks(k) + "<wbr>" + suffix + " ")
			default:
				g.w(" " + g.toks(k) + "<!---->" + suffix + " ")
			}
			if g.curPara >= 0 {
				g.L.Paras[g.curPara].Simple = false
			}
			shape = append(shape, "g")
		case c == 0 || c == 1:
			t := inlineTags[g.r.Intn(len(inlineTags))]
			g.w(" <" + t + g.noise() + ">" + g.toks(k) + "</" + t + "> ")
			shape = append(shape, "i")
		case c == 2:
			g.w(` <a href="` + g.ref("a", "href", g.where(), ".html", linkForms) + `"` + g.noise() + `>` + g.toks(k) + `</a> `)
			shape = append(shape, "a")
		case c == 3:
			g.w(" " + g.toks(k) + "<br>")
			shape = append(shape, "t", "br")
		case c == 4 && g.P.JSAnchors:
			if g.r.Intn(2) == 0 {
				g.w(` <a href="` + g.ref("a", "href", g.where(), "", []string{"js"}) + `">` + g.toks(k) + `</a> `)
				shape = append(shape, "j1")
			} else {
				g.w(` <a href="` + g.ref("a", "href", g.where(), "", []string{"js"}) + `"><b>` + g.toks(k) + `</b> ` + g.toks(1) + `</a> `)
				shape = append(shape, "jn")
			}
		case c == 5 && g.P.Hidden && g.P.InlineAttrs:
			g.hiddenInline()
			g.w(g.toks(k) + " ")
			if g.curPara >= 0 {
				g.L.Paras[g.curPara].Simple = false
			}
			shape = append(shape, "h", "t")
		case c == 6 && g.P.Inline:
			// nested inline
			g.w(" <em><strong>" + g.toks(k) + "</strong></em> ")
			shape = append(shape, "ii")
		default:
			g.w(" " + g.toks(k) + " ")
			shape = append(shape, "t")
		}
	}
	return strings.Join(shape, ",")
}

func (g *ArtGen) paragraph(n int) {
	g.L.Kinds["p"]++
	g.L.Paras = append(g.L.Paras, ParaInfo{Place: g.curPlace(), Simple: !g.P.AttrNoise})
	id := len(g.L.Paras) - 1
	prev := g.curPara
	g.curPara = id
	g.w("<p" + g.noise() + ">")
	g.L.Paras[id].Shape = g.inlineRun(n)
	if g.P.MediaInText && g.r.Chance(1, 6) {
		g.L.Paras[id].Simple = false
		g.media(true)
		g.w(" " + g.toks(2+g.r.Intn(6)) + " ")
	}
	g.w("</p>\n")
	g.curPara = prev
}

// wrapped writes a block whose whole text sits inside one inline element
// (the output code re-attaches the block ancestors of such text).
func (g *ArtGen) wrapped() {
	g.L.Kinds["wrapped"]++
	n := 20 + g.r.Intn(50)
	switch g.r.Intn(5) {
	case 0:
		g.L.Paras = append(g.L.Paras, ParaInfo{Place: g.curPlace(), Simple: !g.P.AttrNoise, Shape: "i"})
		prev := g.curPara
		g.curPara = len(g.L.Paras) - 1
		g.w("<p" + g.noise() + "><b" + g.noise() + ">" + g.toks(n) + "</b></p>\n")
		g.curPara = prev
	case 1:
		g.w("<div" + g.noise() + "><span" + g.noise() + "><em" + g.noise() + ">" + g.toks(n) + "</em></span></div>\n")
	case 2:
		h := 2 + g.r.Intn(2)
		g.w(fmt.Sprintf(`<h%d%s><a href="%s"%s><strong>%s</strong></a></h%d>`+"\n", h, g.noise(), g.ref("a", "href", g.where(), ".html", linkForms), g.noise(), g.toks(2+g.r.Intn(6)), h))
	case 3:
		g.w(`<p` + g.noise() + `>` + g.toks(n) + ` <a href="` + g.ref("a", "href", g.where(), ".html", linkForms) + `"` + g.noise() + `><span><em>` + g.toks(2+g.r.Intn(4)) + `</em></span></a></p>` + "\n")
	default:
		g.w(`<h3` + g.noise() + `><a href="` + g.ref("a", "href", g.where(), ".html", linkForms) + `"` + g.noise() + `><span` + g.noise() + `><em>` + g.toks(3+g.r.Intn(5)) + `</em></span></a></h3>` + "\n")
	}
}

func (g *ArtGen) paraLen() int {
	if g.r.Intn(1000) < g.P.ShortBias {
		return 1 + g.r.Intn(7)
	}
	return 12 + g.r.Intn(70)
}

// ---------------------------------------------------------------------------
// media

func (g *ArtGen) addMedia(id, kind string) {
	g.L.Media = append(g.L.Media, MediaInfo{ID: id, Kind: kind, PrevTok: g.lastTxt, Where: g.curPlace()})
}

func (g *ArtGen) lastRefID() string { return g.L.RefSeq[len(g.L.RefSeq)-1] }

func (g *ArtGen) img(where string) string {
	switch g.r.Intn(6) {
	case 0: // lazy image
		if g.r.Chance(1, 3) {
			// two lazy attributes of the same kind: data-src has priority, the other must never win
			a := g.ref("img", "src", where, ".png", mediaForms)
			id := g.lastRefID()
			b := g.ref("img", "src", where, ".png", mediaForms)
			g.L.Refs[g.lastRefID()].Expect = "\x00shadowed"
			g.L.RefSeq = append(g.L.RefSeq, id)
			return `<img data-original="` + b + `" data-src="` + a + `"` + g.noise() + `>`
		}
		if where != "table" && g.r.Chance(1, 3) { // (a table is copied as it is: its images keep the src they have)
			// a placeholder in src and the real address in a lazy attribute: the lazy value replaces the placeholder
			a := g.ref("img", "src", where, ".png", mediaForms)
			id := g.lastRefID()
			b := g.ref("img", "src", where, ".png", mediaForms)
			g.L.Refs[g.lastRefID()].Expect = "\x00shadowed"
			g.L.RefSeq = append(g.L.RefSeq, id)
			return `<img src="` + b + `" ` + []string{"data-src", "data-original", "data-url"}[g.r.Intn(3)] + `="` + a + `"` + g.noise() + `>`
		}
		s := `<img data-src="` + g.ref("img", "src", where, ".png", mediaForms) + `"` + g.noise() + `>`
		return s
	case 1: // srcset
		src := g.ref("img", "src", where, ".png", mediaForms)
		id := g.lastRefID()
		n := 1 + g.r.Intn(3)
		var cands []string
		if g.r.Chance(1, 4) {
			// sizes of one picture, big to small: the smaller one lives where the address of the bigger one
			// ends (/big/<id>/root/<id'>.png, /root/<id'>.png), so one candidate is part of the text of another
			g.nref += 2
			big, small := fmt.Sprintf("u%dz", g.nref-1), fmt.Sprintf("u%dz", g.nref)
			origin, _, _ := splitPage(g.P.PageURL)
			rawSmall := "/root/" + small + ".png"
			rawBig := "/big/" + big + rawSmall
			for _, x := range [][2]string{{big, rawBig}, {small, rawSmall}} {
				g.L.Refs[x[0]] = &RefInfo{ID: x[0], Raw: x[1], Expect: origin + x[1], Form: "nested", Carrier: "img", Where: where, Attr: "srcset"}
				g.L.RefSeq = append(g.L.RefSeq, x[0])
			}
			cands = append(cands, rawBig+" 2x", rawSmall+" 1x")
			n = 0
		}
		for i := 0; i < n; i++ {
			cands = append(cands, g.ref("img", "srcset", where, ".png", srcsetForms)+[]string{fmt.Sprintf(" %dx", i+1), fmt.Sprintf(" %d00w", i+1), " 1.5x", " 1e0x", " 100w 50h", ""}[g.r.Intn(6)])
		}
		// keep the src id as the identifying one
		g.L.RefSeq = append(g.L.RefSeq, id)
		return `<img src="` + src + `" srcset="` + strings.Join(cands, ", ") + `"` + g.noise() + ` alt="` + g.tokK(KAttr, "img-alt") + `">`
	default:
		return `<img src="` + g.ref("img", "src", where, ".png", mediaForms) + `"` + g.noise() + ` alt="` + g.tokK(KAttr, "img-alt") + ` ` + g.tokK(KAttr, "img-alt") + `" title="` + g.tokK(KAttr, "img-title") + `" width="640" height="480">`
	}
}

func (g *ArtGen) picture(where string) (string, string) {
	var sb strings.Builder
	sb.WriteString("<picture" + g.noise() + ">")
	sb.WriteString(`<source srcset="` + g.ref("source", "srcset", where, ".webp", srcsetForms) + ` 1x, ` + g.ref("source", "srcset", where, ".webp", srcsetForms) + ` 2x"` + g.noise() + `>`)
	if g.r.Chance(1, 4) {
		// picture without <img>: the first <source> is promoted to the image
		c1 := g.ref("source", "srcset", where, ".webp", srcsetForms)
		id := g.lastRefID()
		c2 := g.ref("source", "srcset", where, ".webp", srcsetForms)
		s := "<picture" + g.noise() + `><source srcset="` + c1 + ` 1x, ` + c2 + ` 2x"` + g.noise() + `></picture>`
		return s, id
	}
	if g.P.Hidden && g.r.Chance(1, 2) {
		// non-rendered children of a <picture> that has an <img> fallback
		sb.WriteString(`<script>` + g.toksK(1, KHidden, "script") + `</script><span style="display:none">` + g.toksK(1, KHidden, "display-none") + `</span>`)
	}
	src := g.ref("img", "src", where, ".png", mediaForms)
	id := g.lastRefID()
	if g.P.Hidden && g.r.Chance(1, 3) {
		sb.WriteString(`<span hidden>` + g.toksK(1, KHidden, "hidden-attr") + `</span>`)
	}
	if g.P.Hidden && g.r.Chance(1, 3) {
		sb.WriteString(`<!-- ` + g.toksK(1, KHidden, "comment") + ` -->`)
		if g.r.Chance(1, 2) {
			// more than one comment, next to each other and apart
			sb.WriteString(`<!-- ` + g.toksK(1, KHidden, "comment") + ` --><source srcset="/img/alt` + fmt.Sprint(len(g.L.Toks)) + `.avif 1x"><!-- ` + g.toksK(1, KHidden, "comment") + ` -->`)
		}
	}
	sb.WriteString(`<img src="` + src + `"` + g.noise() + `>`)
	if g.P.Hidden && g.r.Chance(1, 3) {
		sb.WriteString(`<style>` + g.toksK(1, KHidden, "style") + `</style>`)
	}
	if g.P.Skipped && g.r.Chance(1, 3) {
		sb.WriteString(`<span class="spinner"></span><iframe src="https://tracker.example.net/p.html">` + g.toksK(1, KSkipped, "iframe") + `</iframe>`)
	}
	sb.WriteString("</picture>")
	return sb.String(), id
}

func origin(page string) string { o, _, _ := splitPage(page); return o }

func (g *ArtGen) media(inText bool) {
	var kinds []string
	if g.P.Images {
		kinds = append(kinds, "img", "img", "picture")
	}
	if g.P.Figures && !inText {
		kinds = append(kinds, "figure", "figure")
	}
	if g.P.Videos {
		kinds = append(kinds, "video")
	}
	if g.P.Embeds {
		kinds = append(kinds, "embed")
	}
	if g.P.Twitter && !inText {
		kinds = append(kinds, "twitter")
	}
	if len(kinds) == 0 {
		return
	}
	k := kinds[g.r.Intn(len(kinds))]
	g.L.Kinds[k]++
	if !inText && k != "figure" && k != "twitter" && g.r.Chance(1, 5) {
		// wordless wrappers with line breaks / rules next to the media element
		w := [][2]string{{"<div><p>", "<br></p></div>\n"}, {"<section><p><br><br></p>", "</section>\n"}, {"<div><div>", "<hr></div></div>\n"}, {"<div><p><br>", "</p></div>\n"}}[g.r.Intn(4)]
		g.w(w[0])
		defer g.w(w[1])
	}
	switch k {
	case "img":
		s := g.img("image")
		id := g.lastRefID()
		g.addMedia(id, "img")
		g.w(s + "\n")
	case "picture":
		s, id := g.picture("image")
		g.addMedia(id, "img")
		g.w(s + "\n")
	case "figure":
		g.figure()
	case "video":
		src := g.ref("video", "src", "video", ".mp4", mediaForms)
		id := g.lastRefID()
		g.addMedia(id, "video")
		g.w(`<video src="` + src + `" poster="` + g.ref("video", "poster", "video", ".jpg", mediaForms) + `" controls` + g.noise() + `>`)
		if g.r.Chance(1, 2) {
			g.w(`<source src="` + g.ref("source", "src", "video", ".webm", mediaForms) + `" srcset="` + g.ref("source", "srcset", "video", ".webm", srcsetForms) + ` 2x" type="video/webm"` + g.noise() + `>`)
			g.w(`<track src="` + g.ref("track", "src", "video", ".vtt", mediaForms) + `" kind="subtitles"` + g.noise() + `>`)
		}
		g.w(`</video>` + "\n")
	case "embed":
		g.nref++
		id := fmt.Sprintf("u%dz", g.nref)
		g.addMedia(id, "embed")
		if g.r.Chance(1, 2) {
			g.w(`<iframe src="https://www.youtube.com/embed/` + id + `"` + g.noise() + `></iframe>` + "\n")
		} else {
			g.w(`<iframe src="https://player.vimeo.com/video/` + id + `"` + g.noise() + `></iframe>` + "\n")
		}
	case "twitter":
		g.nref++
		id := fmt.Sprintf("u%dz", g.nref)
		g.addMedia(id, "embed")
		g.w(`<blockquote` + g.noiseClass("twitter-tweet") + `><p` + g.noise() + `>` + g.toksK(3+g.r.Intn(5), KPlaceholder, "tweet"))
		if g.P.Hidden && g.r.Chance(1, 2) {
			g.w(`<span><script>` + g.toksK(1, KHidden, "script") + `</script></span><style>` + g.toksK(1, KHidden, "style") + `</style>`)
		}
		g.w(`</p>`)
		if g.P.Hidden && g.r.Chance(1, 2) {
			g.w(`<script>` + g.toksK(2, KHidden, "script") + `</script><style>` + g.toksK(1, KHidden, "style") + `</style>`)
		}
		if g.P.AttrNoise && g.r.Chance(1, 2) {
			// a box of the quote with attributes of its own (a div: the element kind the distiller uses for its wrapper)
			g.w(`<div` + g.noise() + `>` + g.toksK(2, KPlaceholder, "tweet") + `</div>`)
		}
		g.w(`&mdash; ` + g.toksK(1, KPlaceholder, "tweet") + ` <a href="https://twitter.com/user/status/` + id + `"` + g.noise() + `>` + g.toksK(1, KPlaceholder, "tweet") + `</a></blockquote>` + "\n")
	}
}

func (g *ArtGen) figure() {
	figID := len(g.L.Media) + 1000
	g.w("<figure" + g.noise() + ">")
	var id string
	switch g.r.Intn(4) {
	case 0:
		s, pid := g.picture("figure")
		id = pid
		g.w(s)
	case 1: // noscript lazy image
		src := g.ref("img", "src", "figure", ".png", mediaForms)
		id = g.lastRefID()
		g.w(`<noscript><img src="` + src + `"></noscript>`)
	default:
		s := g.img("figure")
		id = g.lastRefID()
		g.w(s)
	}
	g.addMedia(id, "figure")
	prevFig, prevPara := g.curFig, g.curPara
	g.curFig, g.curPara = figID, -1
	g.push("figure")
	switch g.r.Intn(4) {
	case 0: // no caption
	case 1: // caption with links (kept as markup)
		g.push("figcaption-links")
		g.w("<figcaption" + g.noise() + ">" + g.toks(2+g.r.Intn(5)) + ` <a href="` + g.ref("a", "href", "caption", ".html", linkForms) + `"` + g.noise() + `>` + g.toks(1+g.r.Intn(3)) + `</a> `)
		if g.P.Hidden && g.r.Chance(1, 2) {
			g.hiddenInline()
			g.w(`<script>` + g.toksK(1, KHidden, "script") + `</script>`)
		}
		g.w(g.toks(1) + "</figcaption>")
		g.pop()
	default: // plain caption (re-created from its text)
		g.push("figcaption-plain")
		g.w("<figcaption" + g.noise() + ">" + g.toks(2+g.r.Intn(7)))
		if g.P.Figures && g.r.Chance(1, 4) {
			// a caption that talks about markup: escaped characters are text, not markup
			g.w(" " + escapedLiterals[g.r.Intn(len(escapedLiterals))][0] + " " + g.toks(1))
		}
		if g.P.Hidden && g.r.Chance(1, 2) {
			g.hiddenInline()
		}
		g.w("</figcaption>")
		g.pop()
	}
	g.pop()
	g.curFig, g.curPara = prevFig, prevPara
	g.w("</figure>\n")
}

// ---------------------------------------------------------------------------
// hidden and skipped carriers (C04)

var hiddenBlockKinds = []string{"script", "style", "comment", "hidden-attr", "display-none", "vis-hidden", "vis-collapse", "aria-hidden", "display-none-nested", "figcaption-hidden", "script-styled", "style-styled", "figure-hidden-caption", "display-none-font", "figure-hidden-picture", "figcaption-hidden-plain"}
var skippedKinds = []string{"form", "input", "button", "select", "textarea", "noscript", "svg", "object", "embed", "applet", "iframe"}

func (g *ArtGen) hiddenCarrier(kind string) {
	g.L.Kinds["hidden:"+kind]++
	t := func(n int) string { return g.toksK(n, KHidden, kind) }
	switch kind {
	case "script":
		g.w(`<script>var x = "` + t(2) + `";</script>`)
	case "style":
		g.w(`<style>.` + t(1) + ` { color: red }</style>`)
	case "comment":
		g.w(`<!-- ` + t(3) + ` -->`)
	case "hidden-attr":
		switch g.r.Intn(4) {
		case 0:
			// the class that exempts aria-hidden images must not un-hide anything else
			g.w(`<div hidden class="mwe-math-fallback-image-inline">` + t(4) + `</div>`)
		case 1:
			g.w(`<font hidden color="red">` + t(3) + `</font>`)
		default:
			g.w(`<div hidden>` + t(4) + `</div>`)
		}
	case "display-none":
		g.w(`<div style="` + []string{"display:none", "display:none ", "display: none ;", "color:red;display:none", "display:\nnone;\n color:blue", "DISPLAY:none", "display:NONE", "display:none !important", "display: None!important; color:red",
			"display : none", "display\n: none;", "display:inline; display:none", "display:block; display:none !important", "--display:flex; display:none", "display:none/* hide */", "display:/* x */none", "color:red;;display:none;"}[g.r.Intn(17)] + `">` + t(4) + `</div>`)
	case "vis-hidden":
		switch g.r.Intn(4) {
		case 0:
			g.w(`<span class="fallback-image" style="visibility:hidden">` + t(3) + `</span>`)
		case 1:
			g.w(`<font style="visibility: hidden" face="x">` + t(2) + `</font>`)
		case 2:
			g.w(`<div style="` + []string{"visibility : hidden", "visibility:/* x */hidden", "visibility:visible; visibility:hidden", "VISIBILITY:HIDDEN", "color:red; visibility\n:\nhidden ;"}[g.r.Intn(5)] + `">` + t(3) + `</div>`)
		default:
			g.w(`<div style="visibility:hidden">` + t(3) + `</div>`)
		}
	case "vis-collapse":
		g.w(`<div style="` + []string{"color:red; visibility: collapse", "visibility : collapse", "visibility:collapse !important"}[g.r.Intn(3)] + `">` + t(3) + `</div>`)
	case "aria-hidden":
		if g.r.Intn(3) == 0 {
			g.w(`<font aria-hidden="true">` + t(2) + `</font>`)
		} else {
			g.w(`<div aria-hidden="true">` + t(3) + `</div>`)
		}
	case "figure-hidden-caption":
		g.w(`<figure><img src="/img/hc` + fmt.Sprint(len(g.L.Toks)) + `.png" width="600" height="400"><div hidden><figcaption>` + t(3) + `</figcaption></div></figure>`)
	case "script-styled":
		g.w(`<script style="display:block">var y = "` + t(2) + `";</script>`)
	case "style-styled":
		g.w(`<style style="display: block" media="all">.` + t(1) + ` { color: blue }</style>`)
	case "figure-hidden-picture":
		// a hidden placeholder picture (with stray text) in front of the real image of a figure
		hid := []string{` style="display:none"`, ` hidden`, ` aria-hidden="true"`}[g.r.Intn(3)]
		g.w(`<figure><picture` + hid + `>` + t(2) + `<img src="/img/spinner` + fmt.Sprint(len(g.L.Toks)) + `.gif" width="600" height="400"></picture><img src="/img/real` + fmt.Sprint(len(g.L.Toks)) + `.png" width="600" height="400"></figure>`)
	case "figcaption-hidden-plain":
		// the caption element itself is hidden and has no link (its text is taken as a whole)
		hid := []string{` hidden`, ` style="display:none"`, ` style="visibility:hidden"`, ` aria-hidden="true"`}[g.r.Intn(4)]
		g.w(`<figure><img src="/img/hp` + fmt.Sprint(len(g.L.Toks)) + `.png" width="600" height="400"><figcaption` + hid + `>` + t(3) + `</figcaption></figure>`)
	case "figcaption-hidden":
		g.w(`<figcaption hidden>` + t(2) + ` <a href="/hid/cap.html">` + t(1) + `</a></figcaption>`)
	case "display-none-font":
		g.w(`<font style="display:none" class="fallback-image x">` + t(3) + `</font>`)
	case "display-none-nested":
		g.w(`<div style="display: none;"><p>` + t(20) + `</p><ul><li>` + t(3) + `</li></ul></div>`)
	}
}

func (g *ArtGen) skippedCarrier(kind string) {
	g.L.Kinds["skipped:"+kind]++
	t := func(n int) string { return g.toksK(n, KSkipped, kind) }
	switch kind {
	case "form":
		g.w(`<form action="/s"><label>` + t(2) + `</label><input type="text" value="` + t(1) + `"></form>`)
	case "input":
		g.w(`<input type="submit" value="` + t(1) + `">`)
	case "button":
		g.w(`<button>` + t(2) + `</button>`)
	case "select":
		g.w(`<select><option>` + t(1) + `</option><option>` + t(1) + `</option></select>`)
	case "textarea":
		g.w(`<textarea>` + t(3) + `</textarea>`)
	case "noscript":
		if g.P.AttrNoise && g.r.Chance(1, 2) {
			// the fallback markup of a lazy-loading widget: for the parser this is one piece of text
			g.w(`<noscript><img src="/ns.png" onerror="zn()" id="zni" class="znc" style="color:red"><style>p{color:red}</style>` + t(2) + `</noscript>`)
		} else {
			g.w(`<noscript>` + t(3) + `</noscript>`)
		}
	case "svg":
		g.w(`<svg width="10" height="10"><text x="0" y="10">` + t(2) + `</text><title>` + t(1) + `</title></svg>`)
	case "object":
		g.w(`<object data="/flash/movie.swf">` + t(3) + `</object>`)
	case "embed":
		g.w(`<embed src="/flash/movie2.swf">`)
	case "applet":
		g.w(`<applet code="A.class">` + t(3) + `</applet>`)
	case "iframe":
		g.w(`<iframe src="https://ads.example.net/frame.html">` + t(2) + `</iframe>`)
	}
}

func (g *ArtGen) carrier() {
	if g.P.NeverRendered && g.r.Chance(1, 3) {
		// elements whose content a browser never renders (C02: not visible text of the source)
		k := []string{"template", "noembed", "noframes"}[g.r.Intn(3)]
		g.L.Kinds["hidden:"+k]++
		g.w(`<` + k + `>` + []string{"", "<p>"}[g.r.Intn(2)] + g.toksK(2+g.r.Intn(4), KHidden, k) + `</` + k + `>`)
		return
	}
	if g.P.Hidden && (!g.P.Skipped || g.r.Chance(1, 2)) {
		g.hiddenCarrier(hiddenBlockKinds[g.r.Intn(len(hiddenBlockKinds))])
	} else if g.P.Skipped {
		g.skippedCarrier(skippedKinds[g.r.Intn(len(skippedKinds))])
	}
}

// ---------------------------------------------------------------------------
// tables

// tabClass: class / id names that table generators give rows and cells (pandoc writes
// <tr class="header">), which read like names of page chrome. Inside a table they mean nothing.
func (g *ArtGen) tabClass() string {
	if !g.r.Chance(1, 3) {
		return ""
	}
	return []string{` class="header"`, ` class="footer"`, ` class="remark"`, ` class="extra"`, ` id="menu-col"`, ` class="odd sidebar-col"`, ` class="comment"`, ` id="footnote-row"`}[g.r.Intn(8)]
}

func (g *ArtGen) dataTable() {
	g.L.Kinds["datatable"]++
	tid := len(g.L.Tables)
	ti := TableInfo{ID: tid, Data: true, Where: g.curPlace()}
	prevTab, prevPara := g.curTab, g.curPara
	g.curTab, g.curPara = tid, -1
	g.push("datatable")
	g.nref++
	mid := fmt.Sprintf("u%dz", g.nref)
	g.addMedia(mid, "table")
	cols := 2 + g.r.Intn(3)
	rows := 2 + g.r.Intn(4)
	g.w(`<table summary="` + mid + `"` + g.noise() + `>`)
	if g.r.Chance(1, 3) {
		g.w("<caption" + g.noise() + ">" + g.toks(2) + "</caption>")
	}
	useThead := g.r.Chance(1, 3)
	if useThead {
		g.w("<thead>")
	}
	g.w("<tr" + g.tabClass() + g.noise() + ">")
	var hdr [][]int
	for c := 0; c < cols; c++ {
		a := len(g.L.Toks)
		g.w("<th" + g.noise() + ">" + g.toks(1) + "</th>")
		hdr = append(hdr, []int{a})
	}
	g.w("</tr>")
	if useThead {
		g.w("</thead><tbody>")
	}
	ti.Rows = append(ti.Rows, hdr)
	for r := 0; r < rows; r++ {
		ah := ""
		if g.r.Chance(1, 8) {
			ah = ` aria-hidden="false"`
		}
		g.w("<tr" + ah + g.tabClass() + g.noise() + ">")
		var row [][]int
		for c := 0; c < cols; c++ {
			a := len(g.L.Toks)
			ah = ""
			if g.r.Chance(1, 12) {
				ah = ` aria-hidden="false"`
			}
			g.w("<td" + ah + g.tabClass() + g.noise() + ">")
			switch g.r.Intn(12) {
			case 0:
				g.w(g.toks(1) + ` <a href="` + g.ref("a", "href", "table", ".html", linkForms) + `"` + g.noise() + `>` + g.toks(1) + `</a>`)
			case 1:
				g.w("<b>" + g.toks(2) + "</b>")
			case 2:
				if g.P.Images {
					g.w(g.toks(1) + " " + g.img("table"))
				} else {
					g.w(g.toks(1))
				}
			case 3:
				if g.P.Hidden {
					g.w(g.toks(1))
					if g.P.MXSS && g.r.Chance(1, 2) {
						g.mxssInline(true)
					} else {
						g.hiddenInline()
					}
					if g.r.Chance(1, 2) {
						g.w(`<script>` + g.toksK(1, KHidden, "script") + `</script>`)
					}
				} else {
					g.w(g.toks(2))
				}
			case 4:
				if g.P.Skipped {
					g.w(g.toks(1) + " ")
					g.skippedCarrier(skippedKinds[g.r.Intn(len(skippedKinds))])
				} else {
					g.w(g.toks(1))
				}
			case 5:
				g.w("<p" + g.noise() + ">" + g.toks(2+g.r.Intn(4)) + "</p>")
			case 8:
				if g.P.Images {
					// an image map: <area> is a hyperlink element too
					g.w(g.toks(1) + ` <img src="` + g.ref("img", "src", "table", ".png", mediaForms) + `" usemap="#m` + fmt.Sprint(tid) + `"><map name="m` + fmt.Sprint(tid) + `"><area shape="rect" coords="0,0,10,10" href="` + g.ref("area", "href", "table", ".html", linkForms) + `" alt="z"></map>`)
				} else {
					g.w(g.toks(1))
				}
			case 7:
				if g.P.Videos {
					// media sources that are not images
					g.w(g.toks(1) + ` <video controls><source src="` + g.ref("source", "src", "table", ".mp4", mediaForms) + `" type="video/mp4"></video> <audio controls><source src="` + g.ref("source", "src", "table", ".ogg", mediaForms) + `"></audio>`)
				} else {
					g.w(g.toks(2))
				}
			case 6:
				// a cell without any visible content
				switch g.r.Intn(4) {
				case 0:
					g.w("<!-- no data -->")
				case 1:
					if g.P.Hidden {
						g.w(`<span hidden>` + g.toksK(1, KHidden, "hidden-attr") + `</span>`)
					}
				case 2:
					g.w(" ")
				}
			default:
				g.w(g.toks(1 + g.r.Intn(3)))
			}
			g.w("</td>")
			var cell []int
			for i := a; i < len(g.L.Toks); i++ {
				if g.L.Toks[i].Kind == KCell {
					cell = append(cell, i)
				}
			}
			row = append(row, cell)
		}
		g.w("</tr>")
		ti.Rows = append(ti.Rows, row)
	}
	if useThead {
		g.w("</tbody>")
	}
	g.w("</table>\n")
	g.pop()
	g.curTab, g.curPara = prevTab, prevPara
	ti.Mark = fmt.Sprintf("w%dq", ti.Rows[0][0][0])
	g.L.Tables = append(g.L.Tables, ti)
}

func (g *ArtGen) layoutTable() {
	g.L.Kinds["layouttable"]++
	g.push("layout-td")
	if g.r.Chance(1, 3) {
		// cells with bare text, written without white space between the tags (minified pages)
		switch g.r.Intn(3) {
		case 0:
			g.w(`<table role="presentation"` + g.noise() + `><tr><td` + g.noise() + `>` + g.toks(20+g.r.Intn(30)) + `</td><td>` + g.toks(20+g.r.Intn(30)) + `</td></tr></table>` + "\n")
		case 1:
			g.w(`<table role="presentation"><tr><th>` + g.toks(1) + `:</th><td>` + g.toks(2) + `</td></tr><tr><th>` + g.toks(1) + `:</th><td>` + g.toks(3) + `</td></tr></table>` + "\n")
		default:
			g.w(`<ul><li><table role="presentation"><tr><td>` + g.toks(12+g.r.Intn(20)) + `</td><td>` + g.toks(12+g.r.Intn(20)) + `</td></tr></table></li></ul>` + "\n")
		}
		g.pop()
		return
	}
	g.w(`<table role="presentation"` + g.noise() + `><tr>`)
	n := 1 + g.r.Intn(2)
	for i := 0; i < n; i++ {
		g.w("<td" + g.noise() + ">")
		for k := 0; k < 1+g.r.Intn(2); k++ {
			g.paragraph(g.paraLen())
		}
		if g.P.Hidden && g.r.Chance(1, 3) {
			g.carrier()
		}
		g.w("</td>")
	}
	g.w("</tr></table>\n")
	g.pop()
}

// ---------------------------------------------------------------------------
// blocks

// nestNoise is noise() for list items, quotes and pre: now and then the
// element is displayed inline (a common way to style lists).
func (g *ArtGen) nestNoise() string {
	if g.P.Wrappers && g.r.Chance(1, 8) {
		return []string{` style="display:inline"`, ` style="display: inline;"`, ` style="DISPLAY:INLINE !important"`, ` style="color:red;display:inline"`}[g.r.Intn(4)]
	}
	return g.noise()
}

func (g *ArtGen) list() {
	g.L.Kinds["list"]++
	tag := []string{"ul", "ol"}[g.r.Intn(2)]
	g.w("<" + tag + g.noise() + ">")
	g.push("li")
	n := 1 + g.r.Intn(5)
	for i := 0; i < n; i++ {
		g.w("<li" + g.nestNoise() + ">")
		switch g.r.Intn(5) {
		case 0:
			g.paragraph(g.paraLen())
		default:
			g.inlineRun(3 + g.r.Intn(30))
			if g.P.Wrappers && g.r.Chance(1, 8) {
				// a wordless element that is skipped, between two runs of text of the same item
				g.w([]string{`<input type="text" name="q">`, `<button type="button"></button>`, `<select name="s"></select>`, `<div><script>var z=1</script></div>`}[g.r.Intn(4)])
				g.inlineRun(3 + g.r.Intn(10))
			}
		}
		if g.P.MediaInText && g.r.Chance(1, 8) {
			g.media(true)
		}
		if g.P.Hidden && g.r.Chance(1, 10) {
			g.carrier()
		}
		if g.depth < 3 && g.r.Chance(1, 4) {
			g.depth++
			g.block()
			g.depth--
		} else if g.P.Wrappers && g.r.Chance(1, 12) {
			// the other list containers of HTML
			t := []string{"menu", "menu", "dir"}[g.r.Intn(3)]
			g.w("<" + t + "><li>" + g.toks(4+g.r.Intn(25)) + "</li><li>" + g.toks(4+g.r.Intn(25)) + "</li></" + t + ">")
		}
		g.w("</li>")
	}
	g.pop()
	g.w("</" + tag + ">\n")
}

func (g *ArtGen) chrome() {
	g.L.Kinds["chrome"]++
	g.w("<div" + g.noise() + ">")
	for k := 0; k < 1+g.r.Intn(5); k++ {
		g.w(`<a href="` + g.ref("a", "href", "text", ".html", linkForms) + `"` + g.noise() + `>` + g.toks(1+g.r.Intn(2)) + `</a> `)
	}
	g.w("</div>\n")
}

func (g *ArtGen) block() {
	type opt struct {
		w  int
		on bool
		f  func()
	}
	p := g.P
	opts := []opt{
		{10, true, func() { g.paragraph(g.paraLen()) }},
		{2, p.Inline, g.wrapped},
		{2, p.Wrappers, func() {
			// elements whose display is not what their tag suggests
			g.L.Kinds["styled-wrapper"]++
			n := 15 + g.r.Intn(40)
			switch g.r.Intn(12) {
			case 11: // blocks that consist of one inline element with an inline-level display of its own, stacked without white space
				d := []string{"inline-block", "inline-flex", "inline-grid", "inline-table", "inline"}[g.r.Intn(5)]
				g.w(`<div><span style="display:` + d + `">` + g.toks(n) + `</span></div><div><span style="display:` + d + `">` + g.toks(8) + `</span></div><div><b style="display: ` + d + `">` + g.toks(5) + `</b></div>` + "\n")
			case 8: // inline elements displayed as blocks (of any kind), written without white space between them
				d := []string{"block", "flex", "grid", "table", "list-item", "flow-root"}[g.r.Intn(6)]
				g.w(`<div><span style="display:` + d + `">` + g.toks(n) + `</span><span style="display:` + d + `">` + g.toks(8) + `</span><b style="display: flex">` + g.toks(5) + `</b></div>` + "\n")
			case 9:
				d := []string{"block", "flex", "grid", "table", "list-item"}[g.r.Intn(5)]
				g.w(`<ul><li><span style="display:` + d + `">` + g.toks(n) + `</span><span style="display:` + d + `">` + g.toks(8) + `</span></li><li>` + g.toks(12) + `</li></ul>` + "\n")
			case 10:
				g.w(`<p>` + g.toks(n) + `<em style="display:block">` + g.toks(6) + `</em>` + g.toks(7) + `</p>` + "\n")
			case 0:
				g.w(`<dialog style="display: block"` + g.noise() + `>` + g.toks(n) + `</dialog>` + "\n")
			case 1:
				g.w(`<dialog open` + g.noise() + `><p>` + g.toks(n) + `</p></dialog>` + "\n")
			case 2:
				g.w(`<div` + g.noise() + `>` + g.toks(8) + ` <span style="display:block">` + g.toks(n) + `</span> ` + g.toks(5) + `</div>` + "\n")
			case 3:
				g.w(`<div style="display:inline">` + g.toks(n) + `</div> <div style="display: inline-block;">` + g.toks(6) + `</div>` + "\n")
			case 4:
				g.w(`<details open><summary>` + g.toks(3) + `</summary><p>` + g.toks(n) + `</p></details>` + "\n")
			case 5:
				g.w(`<dl><dt>` + g.toks(2) + `</dt><dd>` + g.toks(n) + `</dd></dl>` + "\n")
			case 6:
				g.w(`<address>` + g.toks(6) + `</address><main><p>` + g.toks(n) + `</p></main>` + "\n")
			default:
				g.w(`<p style="display:list-item">` + g.toks(n) + `</p><center>` + g.toks(10) + `</center>` + "\n")
			}
		}},
		{1, true, func() {
			// a block with text but no words
			g.L.Kinds["separator"]++
			g.lastTxt = -1 // a text block without any token: C08 cannot observe whether it is retained
			g.w([]string{"<p>* * *</p>", "<p>&mdash; &mdash;</p>", "<div>&bull;</div>", "<p>***</p>", "<hr><p>~</p>", `<svg width="1" height="1"><html></html></svg><p>~</p>`, `<math><html></html></math><p>*</p>`}[g.r.Intn(7)] + "\n")
		}},
		{2, p.Headings, func() {
			g.L.Kinds["heading"]++
			h := 2 + g.r.Intn(3)
			g.w(fmt.Sprintf("<h%d%s>%s</h%d>\n", h, g.noise(), g.toks(2+g.r.Intn(6)), h))
		}},
		{3, p.Lists, g.list},
		{2, p.Quotes && g.depth < 3, func() {
			g.L.Kinds["blockquote"]++
			g.w("<blockquote" + g.nestNoise() + ">")
			g.push("blockquote")
			g.depth++
			g.block()
			if g.r.Chance(1, 3) {
				g.block()
			}
			g.depth--
			g.pop()
			g.w("</blockquote>\n")
		}},
		{2, p.Pre, func() {
			g.L.Kinds["pre"]++
			if g.r.Chance(1, 3) {
				// a highlighted listing: every token of a line sits in an inline element with attributes of its own
				g.w("<pre" + g.nestNoise() + "><code" + g.noise() + ">")
				for ln := 0; ln < 2+g.r.Intn(3); ln++ {
					for k := 0; k < 1+g.r.Intn(5); k++ {
						t := []string{"span", "b", "i", "em", "a", "code", "kbd"}[g.r.Intn(7)]
						g.w("<" + t + g.noise() + ">" + g.toks(1) + "</" + t + "> ")
					}
					g.w("\n  ")
				}
				g.w("</code></pre>\n")
				return
			}
			g.w("<pre" + g.nestNoise() + ">" + g.toks(3+g.r.Intn(15)) + "\n  " + g.toks(2+g.r.Intn(15)) + "</pre>\n")
		}},
		{4, p.Images || p.Figures || p.Videos || p.Embeds || p.Twitter, func() { g.media(false) }},
		{2, p.DataTables && g.curTab < 0, g.dataTable},
		{1, p.LayoutTables && g.depth < 2, func() { g.depth++; g.layoutTable(); g.depth-- }},
		{2, p.Chrome, g.chrome},
		{2, p.Wrappers && g.depth < 3, func() {
			g.L.Kinds["wrapper"]++
			tag := []string{"div", "section", "article", "div"}[g.r.Intn(4)]
			if g.r.Intn(1000) < g.P.Unlikely {
				g.L.Kinds["unlikely-wrapper"]++
				m := []string{"sidebar", "story-extra", "footer", "related", "site-header", "sponsor"}[g.r.Intn(6)]
				switch g.r.Intn(3) {
				case 0:
					g.w("<" + tag + ` class="` + m + `">`)
				case 1:
					g.w("<" + tag + ` id="` + m + `">`)
				default:
					g.w("<" + tag + ` role="` + []string{"complementary", "navigation", "dialog"}[g.r.Intn(3)] + `">`)
				}
			} else {
				g.w("<" + tag + g.noise() + ">")
			}
			g.depth++
			g.block()
			g.block()
			g.depth--
			g.w("</" + tag + ">\n")
		}},
		{3, p.Hidden || p.Skipped, func() { g.carrier(); g.w("\n") }},
	}
	tot := 0
	for _, o := range opts {
		if o.on {
			tot += o.w
		}
	}
	x := g.r.Intn(tot)
	for _, o := range opts {
		if !o.on {
			continue
		}
		if x < o.w {
			o.f()
			return
		}
		x -= o.w
	}
}

// Doc generates a whole page and returns its source.
func (g *ArtGen) Doc() string {
	g.w("<html><head>")
	tw := g.P.TitleWords
	if tw == 0 {
		tw = 2
	}
	var tt []string
	for i := 0; i < tw; i++ {
		tt = append(tt, g.tokK(KTitle, "title"))
	}
	g.L.Title = strings.Join(tt, " ")
	g.w("<title>" + g.L.Title + "</title>")
	if g.P.Hidden {
		g.push("head")
		g.w(`<meta name="description" content="` + g.toksK(2, KHidden, "head") + `"><script>` + g.toksK(2, KHidden, "script") + `</script><style>` + g.toksK(1, KHidden, "style") + `</style>`)
		g.pop()
	}
	g.w("</head><body" + g.noise() + ">\n<div" + g.noise() + ">\n")
	if g.P.H1Fallback {
		g.w(`<h1` + g.noise() + `><img class="lazy" data-src="/logo.png" alt=""><noscript><img src="/logo.png" alt=""></noscript> ` + g.tokK(KTitle, "title") + " " + g.tokK(KTitle, "title") + " " + g.tokK(KTitle, "title") + "</h1>\n")
	}
	n := g.r.Range(g.P.MinBlocks, g.P.MaxBlocks)
	for i := 0; i < n; i++ {
		g.block()
	}
	g.w("</div>\n</body></html>")
	return g.sb.String()
}

// profiles ------------------------------------------------------------------

func fullProfile() Profile {
	return Profile{Inline: true, JSAnchors: true, Headings: true, Lists: true, Quotes: true, Pre: true, Images: true, Figures: true,
		Videos: true, Embeds: true, Twitter: true, DataTables: true, LayoutTables: true, Chrome: true, Wrappers: true,
		Hidden: true, InlineAttrs: true, ShortBias: 250}
}
