package main

import (
	"fmt"
	"os"
	"path/filepath"
	"runtime"
	"sort"
	"strings"
	"sync"
	"time"

	distiller "github.com/markusmobius/go-domdistiller"
	"golang.org/x/net/html"
)

// C12 — Apply is safe for concurrent use. Runs in the -race build.
//
// Oracle 1: the Go race detector (GORACE=halt_on_error=0 log_path=...): the
// parent counts and de-duplicates "WARNING: DATA RACE" blocks after the
// workers ended. A runtime "fatal error: concurrent map ..." kills the worker
// and is reported by the framework as a crash of the case in flight.
// Oracle 2: every concurrent result equals the sequential baseline.

func init() {
	register(&Prop{
		ID:   "C12",
		Rule: "per case 16 or 64 goroutines are released together behind a barrier and call Apply 4 times each, under the race detector, with GOMAXPROCS cycling through 2, 4 and 16; modes: (e) the byte entry points ApplyForReader / ApplyForFile on different pages whose text has to be decoded and normalised (decomposed accents, soft hyphens, legacy charsets), (a) a different document per goroutine, (b) ONE shared parsed tree for all goroutines, (c) shared tree + one shared *Options + shared *url.URL, (d) shared tree with sub-element roots and every log-flag set (32) across goroutines; both pagination algorithms. Documents contain every construct that makes the pipeline rewrite nodes (javascript: anchors, font, noscript/lazy images, picture without img, embeds, twitter quotes, figures, data tables) plus a pager. Every concurrent result is compared with the result of the same (root, options) computed sequentially before. Each call records (start, end) from the monotonic clock so the run can report how concurrent it actually was. Non-trivial = a case with overlapping calls; distinct = distinct (mode, goroutines, GOMAXPROCS, observed max overlap bucket).",
		Assumptions: []string{
			"the race detector sees only accesses that were executed; happens-before based, so a reported race is real regardless of timing",
			"interleavings are those the scheduler produced under barrier release with 2/4/16 Ps; not enumerated",
		},
		N: func(tier string) int {
			if tier == "quick" {
				return 48
			}
			return 1200
		},
		Workers: 8,
		Race:    true,
		Floors: func(tier string) map[string]int64 {
			return map[string]int64{"concurrent_calls": 3000, "overlapping_call_pairs": 1000, "overlapping_pairs_same_tree": 1000, "results_equal_to_sequential": 3000}
		},
		CPUBound:   600,
		Run:        runC12,
		PostParent: c12Post,
	})
}

type c12Job struct {
	src  string // mode 4: the bytes of a page, given to ApplyForReader / ApplyForFile
	file string
	root *html.Node
	opts *distiller.Options
	tree int // tree identity, for the overlap statistics
	base resultView
}

func runC12(c *Ctx, idx int) {
	r := c.RNG(idx, 1)
	mode := idx % 5
	G := 16
	if idx%8 >= 4 {
		G = 64
	}
	procs := []int{2, 4, 16}[idx/8%3]
	runtime.GOMAXPROCS(procs)
	mkDoc := func() (string, *Pager) {
		prof := fullProfile()
		prof.Skipped, prof.MediaInText, prof.RelURLs = true, true, true
		prof.AttrNoise = r.Intn(2) == 0 // attributes that every output path must strip
		prof.MaxBlocks = 8
		prof.H1Fallback = r.Intn(2) == 0
		g := NewArtGen(r, prof)
		src := g.Doc()
		pg := genPager(r, true)
		i := strings.Index(pg.HTML, "<body>")
		src = strings.Replace(src, "</body>", pg.HTML[i+6:len(pg.HTML)-len("</body></html>")]+"</body>", 1)
		// metadata of all three kinds, with the OpenGraph prefix declared in
		// varying ways (default, custom prefix=, xmlns:) from document to document
		md := genMarkupDoc(r)
		if b := strings.Index(src, "<body"); b >= 0 {
			if e := strings.Index(src[b:], ">"); e >= 0 {
				body := src[b+e+1 : strings.LastIndex(src, "</body>")]
				src = strings.Replace(md.All, "</body>", body+"</body>", 1)
			}
		}
		if prof.H1Fallback {
			// a site-wide <title> that is too short to be the title: the first <h1> is consulted
			src = strings.Replace(src, "<title>Some ordinary page title</title>", "<title>Home</title>", 1)
		}
		return src, pg
	}
	const callsPer = 4
	jobs := make([][]c12Job, G)
	var srcs []string
	switch mode {
	case 4: // the byte entry points: different pages, each with text that the front end has to decode and normalise
		for g := 0; g < G; g++ {
			src, pg := mkDoc()
			src = strings.Replace(src, "</body>", "<h2>U\u0308ber\u00adra\u00adschung cafe\u0301</h2><p>"+strings.Repeat("Stra\u00dfen\u00adbahn re\u0301sume\u0301 na\u00efve \u00a0 co\u00f6perate ", 6+g%5)+"</p></body>", 1)
			if g%4 == 3 {
				src = legacyCharsetDoc(r)
			}
			if g < 2 {
				srcs = append(srcs, src)
			}
			for k := 0; k < callsPer; k++ {
				j := c12Job{src: src, tree: 1000 + g, opts: &distiller.Options{OriginalURL: mustURL(pg.PageURL), PaginationAlgo: distiller.PaginationAlgo(k % 2)}}
				if k == 3 {
					j.file = filepath.Join(c.scratch, fmt.Sprintf("c12.%d.%d.html", c.Shard, g))
					os.WriteFile(j.file, []byte(src), 0o644)
				}
				jobs[g] = append(jobs[g], j)
			}
		}
	case 0: // different documents
		for g := 0; g < G; g++ {
			src, pg := mkDoc()
			if g < 2 {
				srcs = append(srcs, src)
			}
			doc := parseHTML(src)
			for k := 0; k < callsPer; k++ {
				jobs[g] = append(jobs[g], c12Job{root: doc, tree: g, opts: &distiller.Options{OriginalURL: mustURL(pg.PageURL), PaginationAlgo: distiller.PaginationAlgo(k % 2)}})
			}
		}
	default:
		src, pg := mkDoc()
		srcs = append(srcs, src)
		doc := parseHTML(src)
		els := allElements(doc)
		sharedURL := mustURL(pg.PageURL)
		sharedOpts := &distiller.Options{OriginalURL: sharedURL, PaginationAlgo: distiller.PaginationAlgo(idx / 4 % 2), LogFlags: distiller.LogFlag((idx / 24 % 2) * 30)}
		for g := 0; g < G; g++ {
			for k := 0; k < callsPer; k++ {
				j := c12Job{root: doc, tree: 0}
				switch mode {
				case 1: // shared tree, private options
					j.opts = &distiller.Options{OriginalURL: mustURL(pg.PageURL), PaginationAlgo: distiller.PaginationAlgo((g + k) % 2)}
				case 2: // shared tree, shared options, shared URL
					j.opts = sharedOpts
				case 3: // sub-element roots, all log flag sets, shared URL
					if k%2 == 1 && len(els) > 0 {
						j.root = els[(g*7+k*13)%len(els)]
					}
					j.opts = &distiller.Options{OriginalURL: sharedURL, PaginationAlgo: distiller.PaginationAlgo(k % 2), LogFlags: distiller.LogFlag((g*callsPer + k) % 32), SkipPagination: g%5 == 4}
				}
				jobs[g] = append(jobs[g], j)
			}
		}
	}
	c.SetInput(func() any { return map[string]any{"mode": mode, "goroutines": G, "gomaxprocs": procs, "html": srcs} })

	// concurrent phase
	type span struct {
		s, e time.Duration
		tree int
	}
	spans := make([][]span, G)
	type bad struct {
		g, k  int
		what  string
		panic string
	}
	var badMu sync.Mutex
	var bads []bad
	t0 := time.Now()
	start := make(chan struct{})
	var wg sync.WaitGroup
	for g := 0; g < G; g++ {
		wg.Add(1)
		go func(g int) {
			defer wg.Done()
			<-start
			for k, j := range jobs[g] {
				s := time.Since(t0)
				var res *distiller.Result
				var err error
				pn, _ := c.Guard(func() {
					switch {
					case j.file != "":
						res, err = distiller.ApplyForFile(j.file, j.opts)
					case j.src != "":
						res, err = distiller.ApplyForReader(strings.NewReader(j.src), j.opts)
					default:
						res, err = distiller.Apply(j.root, j.opts)
					}
				})
				e := time.Since(t0)
				spans[g] = append(spans[g], span{s, e, j.tree})
				if pn != "" || err != nil || res == nil {
					badMu.Lock()
					bads = append(bads, bad{g, k, "call failed", pn})
					badMu.Unlock()
					continue
				}
				jobs[g][k].base = viewOf(res) // slot written by this goroutine only
			}
		}(g)
	}
	close(start)
	wg.Wait()
	c.Calls(G * callsPer)
	c.Count("concurrent_calls", int64(G*callsPer))
	// sequential reference, computed AFTER the concurrent phase so that the
	// concurrent calls are the first to touch any state (a cache primed by a
	// sequential run would hide unsynchronised first writes)
	if len(bads) == 0 {
		for g := range jobs {
			for k := range jobs[g] {
				var cr callResult
				if jobs[g][k].src != "" {
					cr = c.applyReader(jobs[g][k].src, jobs[g][k].opts)
				} else {
					cr = c.apply(jobs[g][k].root, jobs[g][k].opts)
				}
				if !c.usable(cr) {
					return
				}
				if d := diffViews(viewOf(cr.Res), jobs[g][k].base, true); d != "" {
					bads = append(bads, bad{g, k, d, ""})
				}
			}
		}
	}
	if len(bads) > 0 {
		b := bads[0]
		sig := "concurrent-result-differs:" + b.what
		if b.panic != "" {
			sig = "concurrent-" + b.panic
		}
		c.Violation(sig, fmt.Sprintf("mode %d, %d goroutines, GOMAXPROCS=%d: call %d of goroutine %d differs from its sequential result in: %s %s (%d such calls)", mode, G, procs, b.k, b.g, b.what, b.panic, len(bads)),
			map[string]any{"mode": mode, "goroutines": G, "gomaxprocs": procs, "html": srcs, "differing_calls": len(bads)})
		return
	}
	c.Count("results_equal_to_sequential", int64(G*callsPer))

	// how concurrent was it?
	var all []span
	for _, s := range spans {
		all = append(all, s...)
	}
	sort.Slice(all, func(i, j int) bool { return all[i].s < all[j].s })
	var pairs, sameTree int64
	maxSim := 0
	for i := range all {
		sim := 1
		for j := i + 1; j < len(all) && all[j].s < all[i].e; j++ {
			pairs++
			if all[j].tree == all[i].tree {
				sameTree++
			}
		}
		for j := 0; j < i; j++ {
			if all[j].e > all[i].s {
				sim++
			}
		}
		if sim > maxSim {
			maxSim = sim
		}
	}
	c.Count("overlapping_call_pairs", pairs)
	c.Count("overlapping_pairs_same_tree", sameTree)
	c.Inc(fmt.Sprintf("mode%d_cases", mode))
	c.Inc(fmt.Sprintf("gomaxprocs%d_cases", procs))
	if maxSim >= 8 {
		c.Inc("cases_with_8_or_more_simultaneous_calls")
	}
	if pairs > 0 {
		c.Sig(fmt.Sprintf("%d|%d|%d|%d", mode, G, procs, maxSim/4))
	}
	c.Sample(func() any {
		return map[string]any{"case": idx, "mode": mode, "goroutines": G, "gomaxprocs": procs, "overlapping_pairs": pairs, "max_simultaneous": maxSim}
	})
}

// c12Post scans the race detector logs of all workers.
func c12Post(p *Parent) {
	files, _ := filepath.Glob(filepath.Join(p.scratch, "race.*"))
	type rep struct {
		text string
		n    int
	}
	reports := map[string]*rep{}
	total := 0
	for _, f := range files {
		b, err := os.ReadFile(f)
		if err != nil {
			continue
		}
		for _, blk := range strings.Split(string(b), "==================") {
			if !strings.Contains(blk, "WARNING: DATA RACE") {
				continue
			}
			total++
			key := raceKey(blk)
			if r, ok := reports[key]; ok {
				r.n++
			} else {
				reports[key] = &rep{text: blk, n: 1}
			}
		}
	}
	p.mu.Lock()
	p.Counters["race_reports_total"] += int64(total)
	p.Counters["race_reports_distinct"] += int64(len(reports))
	p.Counters["race_log_files"] += int64(len(files))
	p.mu.Unlock()
	for key, r := range reports {
		p.absorb(&msg{T: "v", Idx: 0, Sig: "data-race:" + key, Msg: fmt.Sprintf("the race detector reported a data race (%d reports with these outermost distiller frames):\n%s", r.n, trunc(r.text, 3000))})
	}
}

// raceKey de-duplicates reports by the innermost distiller functions of the two stacks.
func raceKey(blk string) string {
	var keys []string
	for _, part := range strings.Split(blk, "\n\n") {
		if !(strings.Contains(part, "Write at") || strings.Contains(part, "Read at") || strings.Contains(part, "Previous write") || strings.Contains(part, "Previous read")) {
			continue
		}
		for _, ln := range strings.Split(part, "\n") {
			ln = strings.TrimSpace(ln)
			if strings.HasPrefix(ln, "github.com/markusmobius/go-domdistiller") {
				if i := strings.LastIndex(ln, "("); i > 0 {
					ln = ln[:i]
				}
				keys = append(keys, strings.TrimPrefix(ln, "github.com/markusmobius/go-domdistiller/"))
				break
			}
		}
	}
	sort.Strings(keys)
	if len(keys) == 0 {
		return "outside-distiller"
	}
	return strings.Join(keys, "+")
}
