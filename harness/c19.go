package main

import (
	"fmt"
	nurl "net/url"
	"strings"

	distiller "github.com/markusmobius/go-domdistiller"
	"golang.org/x/net/html"
)

// C19 — third-party frames survive only for allow-listed services, with the right id.

type embHost struct {
	Host    string // as written in the URL (may include userinfo / port)
	Service string // service of the TRUE host, "" if not allow-listed
	Class   string
}

var embHosts = []embHost{
	{"www.youtube.com", "youtube", "allow"}, {"youtube.com", "youtube", "allow"}, {"m.youtube.com", "youtube", "subdomain"}, {"www.youtube-nocookie.com", "youtube", "allow"}, {"youtube-nocookie.com", "youtube", "allow"},
	{"player.vimeo.com", "vimeo", "allow"}, {"a.player.vimeo.com", "vimeo", "subdomain"},
	{"twitter.com", "twitter", "allow"}, {"platform.twitter.com", "twitter", "subdomain"}, {"mobile.twitter.com", "twitter", "subdomain"},
	{"youtube.com.evil.example", "", "suffix-lookalike"}, {"evilyoutube.com", "", "prefix-lookalike"}, {"notyoutube-nocookie.com", "", "prefix-lookalike"}, {"youtube.com@evil.example", "", "userinfo"}, {"www.youtube.com:pw@evil.example", "", "userinfo"}, {"evil.example", "", "other"},
	{"vimeo.com", "", "parent-of-allowed"}, {"xplayer.vimeo.com", "", "prefix-lookalike"}, {"player.vimeo.com.evil.example", "", "suffix-lookalike"}, {"eviltwitter.com", "", "prefix-lookalike"}, {"twitter.com.evil.example", "", "suffix-lookalike"}, {"twitter.com@evil.example", "", "userinfo"},
	{"youtube.co", "", "other"}, {"youtubeXcom.example", "", "other"},
	{"www.youtube.com&v=1@evil.example", "", "userinfo-amp"}, {"player.vimeo.com&x@evil.example", "", "userinfo-amp"},
	{"YOUTUBE.com", "youtube", "upper-case"}, {"youtube.com:8080", "youtube", "port"}, {"youtube.com.", "youtube", "trailing-dot"}, {"Player.Vimeo.com", "vimeo", "upper-case"},
	// letters that Unicode case mapping turns into ASCII letters: U+0130 (I with dot above) lower-cases to i, U+212A (Kelvin sign) to k
	{"tw\u0130tter.com", "", "unicode-lookalike"}, {"www.youtube-nocoo\u212aie.com", "", "unicode-lookalike"}, {"player.v\u0130meo.com", "", "unicode-lookalike"},
}

type embPath struct {
	Path string // path + query; ID is replaced by the case id
	Kind string
}

var embPaths = []embPath{
	{"/embed/ID", "embed-id"}, {"/embed/ID/", "embed-id-slash"}, {"/v/ID&x=1", "v-id-amp"}, {"/v/ID?x=1&y=2", "v-id-query"}, {"/video/ID", "video-id"}, {"/ID", "bare-id"},
	{"/embed/", "container-only"}, {"/video/", "container-only"}, {"/", "root"}, {"/x?u=http://youtube.com/embed/ID", "name-in-query"}, {"/youtube.com/embed/ID", "name-in-path"}, {"/player.vimeo.com/video/ID", "name-in-path"},
	{"/user/status/ID", "status-id"}, {"/embed/ID?start=30&autoplay=1#t", "embed-id-params"},
	{"", "empty-path"}, {"?rel=0", "query-only"},
	{"/user/status/ID/photo/1", "status-id-photo"}, {"/user/status/ID/video/1", "status-id-video"}, {"/watch?v=ID", "watch-query"}, {"/watch?feature=share&v=ID", "watch-query"},
	{"/video/ID#t=1m2s", "video-id-fragment"}, {"/embed/ID#/foo/bar", "embed-id-fragment-path"}, {"/user/status/ID#m", "status-id-fragment"},
}

var embSchemes = []string{"https://", "http://", "//", "relative-on-list", "relative-off-list", "no-scheme", "javascript://", "data://"}
var embCarriers = []string{"iframe", "object-data", "object-param", "tw-iframe", "tw-bq", "tw-bq-nested", "iframe-lazy", "picture-iframe", "iframe-srcdoc", "tw-bq-mxss", "figure-picture-iframe", "tw-bq-noscript"}

type embCase struct {
	H       embHost
	P       embPath
	Scheme  string
	Carrier string
	ID      string
}

func embGridSize() int { return len(embHosts) * len(embPaths) * len(embSchemes) * len(embCarriers) }

func embFromIndex(k int) embCase {
	e := embCase{}
	e.Carrier = embCarriers[k%len(embCarriers)]
	k /= len(embCarriers)
	e.Scheme = embSchemes[k%len(embSchemes)]
	k /= len(embSchemes)
	e.P = embPaths[k%len(embPaths)]
	k /= len(embPaths)
	e.H = embHosts[k%len(embHosts)]
	return e
}

// trueHostService returns the service of the host the URL really points to.
func (e embCase) service() string {
	if e.Carrier == "iframe-lazy" || e.Carrier == "picture-iframe" || e.Carrier == "figure-picture-iframe" {
		return "" // the frame really loads from its src, an unlisted host / is not a frame of the page's own
	}
	switch e.Scheme {
	case "relative-on-list":
		return "youtube"
	case "relative-off-list", "no-scheme":
		return "" // a relative reference: the true host is the (unlisted) page host
	case "javascript://", "data://":
		return "" // nothing is loaded from the host-looking part of a script / data URL
	}
	return e.H.Service
}

func (e embCase) src() (src string, pageURL string) {
	path := strings.ReplaceAll(e.P.Path, "ID", e.ID)
	pageURL = "http://example.com/dir/page.html"
	switch e.Scheme {
	case "relative-on-list":
		return path, "https://www.youtube.com/watch/page.html"
	case "relative-off-list":
		return path, pageURL
	case "no-scheme":
		// host name written without scheme: a relative path whose first segment looks like a host
		return e.H.Host + path, pageURL
	}
	return e.Scheme + e.H.Host + path, pageURL
}

// lastSegment is the id "taken from the URL": the last non-empty path segment.
func (e embCase) lastSegment() string {
	p := strings.ReplaceAll(e.P.Path, "ID", e.ID)
	if e.Scheme == "relative-on-list" && !strings.HasPrefix(p, "/") {
		p = "/watch/page.html" + p // an empty or query-only reference names the page itself
	}
	if e.service() == "youtube" && !strings.Contains(p, "?") {
		p = strings.Replace(p, "&", "?", 1) // flash-style YouTube URL /v/ID&x=1: parameters start at the first &
	}
	query := ""
	if i := strings.IndexAny(p, "?#"); i >= 0 {
		if p[i] == '?' {
			query = p[i+1:]
			if j := strings.Index(query, "#"); j >= 0 {
				query = query[:j]
			}
		}
		p = p[:i]
	}
	segs := strings.Split(p, "/")
	switch e.service() {
	case "twitter": // the tweet id follows "status"; what comes after it names a photo or video of the tweet
		for i := 0; i+1 < len(segs); i++ {
			if segs[i] == "status" && segs[i+1] != "" {
				return segs[i+1]
			}
		}
	case "youtube": // a watch page carries the id in its query
		if strings.TrimSuffix(p, "/") == "/watch" {
			if q, err := nurl.ParseQuery(query); err == nil {
				return q.Get("v")
			}
		}
	}
	for i := len(segs) - 1; i >= 0; i-- {
		if s := strings.TrimSpace(segs[i]); s != "" {
			return s
		}
	}
	return ""
}

func (e embCase) element() string {
	src, _ := e.src()
	switch e.Carrier {
	case "iframe":
		return fmt.Sprintf(`<iframe src="%s" width="560" height="315"></iframe>`, src)
	case "object-data":
		return fmt.Sprintf(`<object type="application/x-shockwave-flash" data="%s"></object>`, src)
	case "object-param":
		return fmt.Sprintf(`<object><param name="movie" value="%s"><param name="wmode" value="transparent"></object>`, src)
	case "tw-iframe":
		return fmt.Sprintf(`<iframe src="%s" data-tweet-id="TW%s"></iframe>`, src, e.ID)
	case "iframe-lazy":
		// the allow-listed URL only sits in lazy-loading attributes; the frame itself loads from elsewhere
		return fmt.Sprintf(`<iframe src="https://ads.example.net/slot/%s.html" data-src="%s" data-original="%s" data-tweet-id="TW%s"></iframe>`, e.ID, src, src, e.ID)
	case "picture-iframe":
		// frames hidden among the children of a <picture> (which is cloned into the output)
		return fmt.Sprintf(`<picture><span class="spinner"></span><iframe src="https://tracker.example.net/t/%s"></iframe><source srcset="/img/%s.webp 1x"><b>x</b><iframe src="%s"></iframe><img src="/img/%s.png" width="640" height="480"></picture>`, e.ID, e.ID, src, e.ID)
	case "iframe-srcdoc":
		// srcdoc takes precedence over src: the frame shows markup supplied by the page
		return fmt.Sprintf(`<iframe src="%s" srcdoc="&lt;p&gt;zz&lt;/p&gt;" width="560" height="315"></iframe>`, src)
	case "tw-bq-mxss":
		// a tweet quote with inert text that turns into a frame when the output is serialised and parsed again
		return fmt.Sprintf(`<blockquote class="twitter-tweet"><p>hello world <math><mtext><table><mglyph><xmp></math><iframe src="https://ads.example.net/m/%s"></iframe></xmp></mglyph></table></mtext></math></p>&mdash; someone <a href="%s">date</a></blockquote>`, e.ID, src)
	case "figure-picture-iframe":
		// the same inside a figure, next to the figure's real image
		return fmt.Sprintf(`<figure><picture><span><iframe src="%s"></iframe></span><source srcset="/img/%s.webp 1x"><img src="/img/%s.png" width="640" height="480"></picture><figcaption>zz %s</figcaption></figure>`, src, e.ID, e.ID, e.ID)
	case "tw-bq-noscript":
		// a tweet quote whose no-script fallback is a frame of another host (text for the parser)
		return fmt.Sprintf(`<blockquote class="twitter-tweet"><p>hello world</p><noscript><iframe src="https://ads.example.net/n/%s"></iframe></noscript>&mdash; someone <a href="%s">date</a></blockquote>`, e.ID, src)
	case "tw-bq-nested":
		// a tweet quote that carries foreign frames inside
		return fmt.Sprintf(`<blockquote class="twitter-tweet"><p>hello world <iframe src="https://ads.example.net/frame/%s"></iframe></p><div><object data="https://ads.example.net/o.swf"><iframe src="/local/frame.html"></iframe></object></div>&mdash; someone <a href="%s">date</a></blockquote>`, e.ID, src)
	default:
		return fmt.Sprintf(`<blockquote class="twitter-tweet"><p>hello world</p>&mdash; someone <a href="https://example.org/profile">profile</a> <a href="%s">date</a></blockquote>`, src)
	}
}

func (e embCase) doc(r *RNG, rich bool) string {
	if !rich {
		return `<html><head><title>zz</title></head><body><div><p>` + fillerWords(r, 60) + `</p>` + e.element() + `<p>` + fillerWords(r, 60) + `</p></div></body></html>`
	}
	prof := fullProfile()
	prof.Embeds, prof.Twitter, prof.Skipped, prof.DataTables, prof.Figures = false, false, false, false, false
	prof.MaxBlocks = 8
	g := NewArtGen(r, prof)
	src := g.Doc()
	return strings.Replace(src, "</body>", `<p>`+fillerWords(r, 60)+`</p>`+e.element()+`<p>`+fillerWords(r, 60)+`</p></body>`, 1)
}

func genEmbedDoc(r *RNG) string {
	e := embFromIndex(r.Intn(embGridSize()))
	e.ID = fmt.Sprintf("v%dk", r.Intn(100000))
	return e.doc(r, false)
}

func init() {
	register(&Prop{
		ID:   "C19",
		Rule: "full grid every run: 33 hosts (allow-listed roots, their subdomains, suffix look-alikes youtube.com.evil.example, prefix look-alikes evilyoutube.com / xplayer.vimeo.com, look-alikes with a letter that Unicode lower-casing maps onto ASCII (U+0130, U+212A), vimeo.com itself, userinfo tricks youtube.com@evil.example, upper case, port, trailing dot) x 23 path/query shapes (incl. fragments after the id, no path at all, /status/ID/photo/1, /watch?v=ID) (/embed/ID, /embed/ID/, /v/ID&x=1, /v/ID?x=1, /video/ID, /ID, container only, root, service name only in path or query, /user/status/ID, parameters+fragment) x 8 source forms (javascript:// and data:// URLs with a host-looking part, https, http, scheme-relative, relative with the page on / off the allow list, host name without scheme = relative path) x 12 carriers (a tweet quote whose noscript fallback is a foreign frame, a figure whose picture holds an iframe next to its image, an iframe with srcdoc, a tweet quote whose inert text re-parses into a frame, iframe, object[data], object>param[name=movie], rendered twitter iframe with data-tweet-id, twitter blockquote with the tweet link as last anchor, the same with foreign iframes/objects nested inside, an iframe whose src is foreign while the allow-listed URL sits in data-src, iframes among the children of a <picture>) = 72864 cases, each between two long paragraphs (quick) and additionally inside random articles (thorough). Oracle: a placeholder may exist only if the TRUE host (known by construction) is allow-listed; its data-type must be that service and data-id the id encoded in the URL (last path segment, the segment after status for tweets, the v parameter of a YouTube watch page, resp. data-tweet-id); no bare <iframe> may survive. Non-trivial = every grid cell; distinct = distinct cells.",
		Assumptions: []string{
			"'only if': an allow-listed source that is not turned into a placeholder (port, case, unsupported carrier) is not a violation",
			"the id 'taken from the URL' is the last non-empty path segment (not the container words embed/video), for rendered tweets the data-tweet-id attribute",
		},
		Exhaustive: func(tier string) bool { return tier == "quick" },
		N: func(tier string) int {
			if tier == "quick" {
				return embGridSize()
			}
			return embGridSize() * 20
		},
		Floors: func(tier string) map[string]int64 {
			return map[string]int64{"placeholders_checked": 400, "lookalike_cases_without_placeholder": 2000, "type_youtube": 100, "type_vimeo": 20, "type_twitter": 50}
		},
		Run: runC19,
	})
}

func runC19(c *Ctx, idx int) {
	r := c.RNG(idx, 1)
	e := embFromIndex(idx % embGridSize())
	e.ID = fmt.Sprintf("v%dk", 1000+idx%9000)
	rich := idx >= embGridSize()
	src := e.doc(r, rich)
	_, page := e.src()
	wit := func(extra map[string]any) map[string]any {
		w := map[string]any{"html": src, "page_url": page, "case": fmt.Sprintf("%+v", e), "element": e.element()}
		for k, v := range extra {
			w[k] = v
		}
		return w
	}
	c.SetInput(func() any { return wit(nil) })
	cr := c.applyVariant(src, &distiller.Options{OriginalURL: mustURL(page), SkipPagination: true}, idx/7)
	if !c.usable(cr) {
		return
	}
	var phs []*html.Node
	bareIframe, srcdoc := false, false
	nIframes := 0
	walk(cr.Res.Node, func(n *html.Node) bool {
		if n.Type != html.ElementNode {
			return true
		}
		if isPlaceholder(n) {
			phs = append(phs, n)
			return true
		}
		if n.Data == "iframe" {
			nIframes++
		}
		if n.Data == "iframe" && hasAttr(n, "srcdoc") {
			srcdoc = true
		}
		if n.Data == "iframe" {
			// the only frame allowed is the recognised one: the direct child of its placeholder
			if n.Parent == nil || !isPlaceholder(n.Parent) {
				bareIframe = true
			}
		}
		return true
	})
	svc := e.service()
	if out := outer(cr.Res.Node); strings.Count(strings.ToLower(out), "<iframe") > nIframes {
		c.Violation("iframe-markup-as-text:"+e.Carrier, "the distilled HTML contains <iframe ...> markup that is not an element of Result.Node (raw text of a noscript element): a frame for every reader without scripting", wit(map[string]any{"result_html": trunc(out, 2000)}))
		return
	}
	if srcdoc {
		c.Violation("srcdoc-kept:"+e.Carrier, "an <iframe> in the distilled HTML keeps its srcdoc attribute: what it shows is markup of the page, not the allow-listed source", wit(map[string]any{"result_html": trunc(outer(cr.Res.Node), 2000)}))
		return
	}
	if bareIframe {
		c.Violation("bare-iframe:"+e.H.Class+":"+e.Carrier, fmt.Sprintf("an <iframe> that was not turned into a placeholder survives in the distilled HTML (source host %s, carrier %s)", e.H.Host, e.Carrier), wit(map[string]any{"result_html": trunc(outer(cr.Res.Node), 2000)}))
		return
	}
	if len(phs) == 0 {
		if svc == "" {
			c.Inc("lookalike_cases_without_placeholder")
		} else {
			c.Inc("allowed_host_not_embedded(ok)")
		}
		c.Sig(fmt.Sprintf("%d|none", idx%embGridSize()))
		return
	}
	ph := phs[0]
	typ, id := attr(ph, "data-type"), attr(ph, "data-id")
	c.Inc("placeholders_checked")
	c.Inc("type_" + typ)
	if svc == "" {
		c.Violation("placeholder-for-unlisted-host:"+e.H.Class+":"+e.Carrier, fmt.Sprintf("%s with source %q (true host not allow-listed: %s) became a %s placeholder", e.Carrier, e.element(), e.H.Class, typ), wit(map[string]any{"placeholder": outer(ph)}))
		return
	}
	if typ != svc {
		c.Violation("wrong-type:"+svc+"->"+typ, fmt.Sprintf("source on %s (service %s) became a placeholder of type %q", e.H.Host, svc, typ), wit(map[string]any{"placeholder": outer(ph)}))
		return
	}
	wantID := e.lastSegment()
	if e.Carrier == "tw-iframe" && svc == "twitter" {
		wantID = "TW" + e.ID
	}
	container := map[string]string{"youtube": "embed", "vimeo": "video"}[svc]
	if wantID == "" || wantID == container {
		c.Violation("id-invented:"+svc+":"+e.P.Kind, fmt.Sprintf("the URL %q carries no id but the placeholder has data-id=%q", e.element(), id), wit(map[string]any{"placeholder": outer(ph)}))
		return
	}
	if id != wantID {
		c.Violation("wrong-id:"+svc+":"+e.P.Kind+":"+e.Carrier, fmt.Sprintf("placeholder data-id=%q, the id in the URL is %q (%s)", id, wantID, e.element()), wit(map[string]any{"placeholder": outer(ph)}))
		return
	}
	c.Sig(fmt.Sprintf("%d|%s", idx%embGridSize(), typ))
	c.Sample(func() any { return wit(map[string]any{"placeholder": outer(ph)}) })
}
