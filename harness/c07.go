package main

import (
	"fmt"
	"strings"

	"golang.org/x/net/html"
)

// C07 — retained text keeps its list/quote/pre nesting; data tables whole.

func nestable(tag string) bool {
	switch tag {
	case "ul", "ol", "li", "blockquote", "pre":
		return true
	}
	return false
}

// chains maps every token to the chain of nestable ancestors of its text node.
func chains(n *html.Node, cur string, out map[string]string) {
	if n.Type == html.ElementNode && nestable(n.Data) {
		cur = cur + "/" + n.Data
	}
	if n.Type == html.TextNode {
		for _, k := range rxTok.FindAllString(n.Data, -1) {
			out[k] = cur
		}
	}
	for ch := n.FirstChild; ch != nil; ch = ch.NextSibling {
		chains(ch, cur, out)
	}
}

func init() {
	register(&Prop{
		ID:   "C07",
		Rule: "G-article pages with lists nested up to 4 levels (content only in an inner list, lists with dropped siblings, lists interleaved with media and skipped elements, paragraphs/pre/quotes inside list items, quotes inside lists) and data tables (thead/caption, inline markup, images, links in cells). For every retained token the chain of ul/ol/li/blockquote/pre ancestors in Result.Node is compared with the chain in the harness' own parse of the source; every retained data table is compared row by row and cell by cell with the source table. Non-trivial = a retained token with a non-empty chain or a retained table; distinct = distinct (chain shape) and (table rows x cols).",
		Assumptions: []string{
			"the source chain is computed on the same x/net/html parse, so parser normalisation is shared",
			"a table is identified in the output by the unique token of its first header cell",
		},
		N: func(tier string) int {
			if tier == "quick" {
				return 30000
			}
			return 300000
		},
		Floors: func(tier string) map[string]int64 {
			return map[string]int64{"retained_tokens_nested": 50000, "retained_tables": 500, "chain_depth>=3": 1000}
		},
		Run: runC07,
	})
}

func runC07(c *Ctx, idx int) {
	prof := Profile{Inline: true, JSAnchors: true, Headings: true, Lists: true, Quotes: true, Pre: true, Images: true, Figures: true,
		Videos: true, Embeds: true, Twitter: true, DataTables: true, LayoutTables: true, Chrome: true, Wrappers: true,
		Hidden: true, InlineAttrs: true, Skipped: idx%3 == 0, MediaInText: true, ShortBias: 300}
	ar, ok := c.runArticle(idx, prof, nil)
	if !ok {
		return
	}
	L := ar.G.L
	src := map[string]string{}
	chains(parseHTML(ar.Src), "", src)
	out := map[string]string{}
	chains(ar.Res.Node, "", out)
	var nested, flat int64
	for t, ch := range out {
		want, known := src[t]
		if !known {
			continue // C02's business
		}
		if want != ch {
			c.Violation("nesting:"+chainShape(want)+"->"+chainShape(ch), fmt.Sprintf("token %s sits in %q in the source but in %q in the distilled HTML", t, want, ch),
				ar.witness(map[string]any{"token": t, "source_chain": want, "output_chain": ch}))
			return
		}
		if ch != "" {
			nested++
			c.Sig("chain:" + ch)
			if strings.Count(ch, "/") >= 3 {
				c.Inc("chain_depth>=3")
			}
		} else {
			flat++
		}
	}
	c.Count("retained_tokens_nested", nested)
	c.Count("retained_tokens_flat", flat)

	// data tables
	outTables := map[string]*html.Node{}
	walk(ar.Res.Node, func(n *html.Node) bool {
		if n.Type == html.ElementNode && n.Data == "table" {
			for _, t := range textNodeTokens(n, nil) {
				if _, dup := outTables[t]; !dup {
					outTables[t] = n
				}
			}
		}
		return true
	})
	for _, ti := range L.Tables {
		tn := outTables[ti.Mark]
		if tn == nil {
			c.Inc("tables_dropped")
			continue
		}
		c.Inc("retained_tables")
		var rows [][]string // per row: per cell joined KCell tokens
		walk(tn, func(n *html.Node) bool {
			if n.Type == html.ElementNode && n.Data == "tr" {
				var cells []string
				for ch := n.FirstChild; ch != nil; ch = ch.NextSibling {
					if ch.Type == html.ElementNode && (ch.Data == "td" || ch.Data == "th") {
						var ts []string
						for _, t := range textNodeTokens(ch, nil) {
							k := tokIdx(t)
							if k > 0 && k < len(L.Toks) && L.Toks[k].Kind == KCell {
								ts = append(ts, t)
							}
						}
						cells = append(cells, strings.Join(ts, " "))
					}
				}
				rows = append(rows, cells)
				return false
			}
			return true
		})
		want := make([][]string, len(ti.Rows))
		for i, r := range ti.Rows {
			for _, cell := range r {
				var ts []string
				for _, k := range cell {
					ts = append(ts, fmt.Sprintf("w%dq", k))
				}
				want[i] = append(want[i], strings.Join(ts, " "))
			}
		}
		if fmt.Sprint(rows) != fmt.Sprint(want) {
			c.Violation("table-incomplete", fmt.Sprintf("retained data table %s differs from the source table: got rows %v, want %v", ti.Mark, rows, want),
				ar.witness(map[string]any{"table": ti.Mark, "got": rows, "want": want}))
			return
		}
		c.Sig(fmt.Sprintf("table:%dx%d@%s", len(want), len(want[0]), ti.Where))
	}
	c.Sample(func() any { return map[string]any{"case": idx, "html": trunc(ar.Src, 1500), "nested_tokens": nested} })
}

func chainShape(ch string) string {
	if ch == "" {
		return "-"
	}
	return ch
}
