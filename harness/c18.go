package main

import (
	"fmt"

	"golang.org/x/net/html"
)

// C18 — tables are classified by the documented rule cascade.

// quick: base vector, every single non-neutral setting, every pair of
// non-neutral settings of two different dimensions (both rules applicable at
// once, boundary values on each threshold), at rotating placements, plus a
// seeded sample of the full grid. thorough: the full cross product.

type c18Quick struct{ list [][]int }

var c18QuickList [][]int

func c18QuickVectors() [][]int {
	if c18QuickList != nil {
		return c18QuickList
	}
	nd := len(tfDims)
	base := make([]int, nd)
	out := [][]int{append([]int{}, base...)}
	for a := 0; a < nd; a++ {
		for va := 1; va < tfDims[a]; va++ {
			v := append([]int{}, base...)
			v[a] = va
			out = append(out, v)
			for b := a + 1; b < nd; b++ {
				for vb := 1; vb < tfDims[b]; vb++ {
					w := append([]int{}, v...)
					w[b] = vb
					out = append(out, w)
				}
			}
		}
	}
	c18QuickList = out
	return out
}

func init() {
	register(&Prop{
		ID:   "C18",
		Rule: "a table is generated from a vector of the rule-relevant features: editable ancestor (a wrapper div, <body> or <html>); table role in {none, presentation, grid, treegrid, landmark(main)}; descendant role in {none, row, gridcell, landmark(search)}; datatable=0; nested 1x1 table; body rows in {1,2,3,19,20}; columns in {1,2,4,5}; header structure in {none, caption, thead, tfoot, colgroup, col, th, th whose label sits in a <button>}, the last five also preceded by a text-less <caption>; cell feature in {none, abbr, headers, scope, lone <abbr> child}; summary; total cells in {12,10,11} at 3x4; embedded {none, embed, object, applet, iframe}; placed in a div, an article>section, a blockquote or a td of a layout table, after two long paragraphs. Observation: the table is data iff a <table> element occurs in Result.Node. Oracle: a reference implementation of the stated cascade. thorough = the full cross product of the grid (exhaustive); quick = base + all single settings + all pairs of settings of two different dimensions + a seeded sample of the grid. Every vector is a distinct non-trivial case.",
		Assumptions: []string{
			"landmark roles: main, search on the table; search, navigation, complementary on a cell (the last two are also 'unlikely' roles: on long pages the cell is skipped from the output, the table itself is still identified by its other cells)",
			"a retained table follows retained text, so 'no <table> in the output' means 'classified as layout'; placement inside <li> is not generated because the text of a layout table inside a list item is cloned together with its table ancestors, which blinds this observer",
			"rows are <tr> elements, the columns of a row are its cells, <td> and <th> alike; a rowspan/colspan that is not a positive number counts as 1",
			"an editable area is an ancestor whose contenteditable attribute is in the true or plaintext-only state (\"true\", \"\", no value, \"plaintext-only\", any letter case)",
		},
		Exhaustive: func(tier string) bool { return tier == "thorough" },
		N: func(tier string) int {
			if tier == "quick" {
				return len(c18QuickVectors()) + 60000
			}
			return tfGridSize()
		},
		Floors: func(tier string) map[string]int64 {
			fl := map[string]int64{"vectors_checked": 10000}
			for _, r := range []string{"editable", "role-presentation", "role-on-table", "role-on-descendant", "datatable0", "nested", "one-row", "one-column", "header-structure", "cell-attribute", "summary", "five-columns", "twenty-rows", "ten-cells", "embedded-object", "default"} {
				fl["rule_"+r] = 20
				if tier == "thorough" {
					// the full grid has what it has: 8 vectors are decided by the default rule, 20 by the row count
					fl["rule_"+r] = 5
				}
			}
			return fl
		},
		Run: runC18,
	})
}

func runC18(c *Ctx, idx int) {
	var d []int
	if c.Quick() {
		q := c18QuickVectors()
		if idx < len(q) {
			d = q[idx]
		} else {
			// seeded sample, biased towards the later rules of the cascade: the
			// dimensions of the early rules are neutral most of the time
			r := c.RNG(idx, 1)
			d = make([]int, len(tfDims))
			for i, n := range tfDims {
				switch {
				case i == 10:
					d[i] = 0
				case i <= 4 && r.Intn(10) != 0: // editable, roles, datatable, nested
					d[i] = 0
				case (i == 7 || i == 8 || i == 9) && r.Intn(3) != 0: // header, cell attribute, summary
					d[i] = 0
				default:
					d[i] = r.Intn(n)
				}
			}
			if d[5] == 0 && d[6] == 0 && r.Intn(2) == 0 {
				d[10] = 1 + r.Intn(2)
			}
		}
	} else {
		_, d = tfFromIndex(idx)
	}
	f := tfFromDigits(d)
	if !(f.Rows == 3 && f.Cols == 4) && d[10] != 0 {
		c.Inc("duplicate_vectors_skipped")
		return
	}
	f.Place = tfPlaces[(idx+idx/7)%len(tfPlaces)]
	// a text-less <caption> in front of another header structure: the table
	// still has a header structure, whichever way an empty caption is read
	f.BlankCap = (idx/3)%2 == 0
	f.EditSpell = int(mix64(uint64(idx)) % 4)
	f.RoleSpell = int(mix64(uint64(idx)*7+3) % 8) // 5, 6, 7: as is
	// only where the descendant role decides (no editable ancestor, no role on the outer table): elsewhere the
	// outer table is flattened and the nested table, data by its own role, would be mistaken for the table under test
	f.DescOnNested = mix64(uint64(idx)*13+9)%2 == 0 && !f.Editable && f.Role == ""
	f.LongPage = mix64(uint64(idx)*11+5)%3 == 0
	f.Pre = int(mix64(uint64(idx)*5+1) % 8) // 0, 6, 7: no other table
	if (f.DescRole == "navigation" || f.DescRole == "complementary") && f.LongPage && f.Rows*f.Cols == 1 {
		// the only cell of the table carries an 'unlikely' role and is skipped on a long page: nothing of the table is left to observe
		c.Inc("observer_blind_skipped")
		return
	}
	src, lo, hi := f.docRange()
	c.SetInput(func() any { return map[string]any{"html": src, "features": f} })
	cr := c.applyVariant(src, nil, idx/3)
	if !c.usable(cr) {
		return
	}
	// is the table under test (identified by the tokens written inside it) a <table> in the output?
	got := false
	walk(cr.Res.Node, func(n *html.Node) bool {
		if n.Type == html.ElementNode && n.Data == "table" {
			for _, t := range textNodeTokens(n, nil) {
				if k := tokIdx(t); k > lo && k <= hi {
					got = true
				}
			}
		}
		return !got
	})
	want, rule := f.expect()
	c.Inc("vectors_checked")
	c.Inc("rule_" + rule)
	c.Inc("place_" + f.Place)
	if got != want {
		kind := map[bool]string{true: "data", false: "layout"}
		c.Violation(fmt.Sprintf("misclassified:%s:got-%s", rule, kind[got]), fmt.Sprintf("table %+v is treated as %s; the cascade says %s (deciding rule: %s)", f, kind[got], kind[want], rule),
			map[string]any{"html": src, "features": f, "expected": kind[want], "rule": rule, "result_html": trunc(outer(cr.Res.Node), 3000)})
		return
	}
	c.Sig(fmt.Sprint(d, f.Place))
	c.Sample(func() any {
		return map[string]any{"features": f, "expected_data": want, "rule": rule, "html": trunc(src, 1200)}
	})
}
