package main

func genTableDoc(r *RNG) string { return r.soupDoc() }
func genEmbedDoc(r *RNG) string { return r.soupDoc() }
