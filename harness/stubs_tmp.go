package main

type markupDoc struct{ All string }

func genMarkupDoc(r *RNG) markupDoc { return markupDoc{All: r.soupDoc()} }
func genTitleDoc(r *RNG) string    { return r.soupDoc() }
func genTableDoc(r *RNG) string    { return r.soupDoc() }
func genEmbedDoc(r *RNG) string    { return r.soupDoc() }
