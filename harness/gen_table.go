package main

import (
	"fmt"
	"strings"
)

// G-table: a table built from a vector of the features the classification
// cascade reads, plus the reference implementation of the stated cascade.

type tableFeat struct {
	Editable     bool
	EditableAt   string // div (wrapper around the table), body, html
	Role         string // "", presentation, grid, treegrid, main
	DescRole     string // "", row, gridcell, search
	Datatable0   bool
	Nested       bool
	Rows, Cols   int
	Cells        int    // total td count in the body rows; 0 = rows*cols
	Header       string // "", caption, thead, tfoot, colgroup, col, th
	CellAttr     string // "", abbr, headers, scope, loneabbr
	Summary      bool
	Object       string // "", embed, object, applet, iframe
	BlankCap     bool   // an empty <caption> in front of another header structure (never alone)
	Pre          int    // another table before the one under test: 0 none, 1 scope cell, 2 headers cell, 3 lone abbr, 4 plain 2x2, 5 caption+th
	DescOnNested bool   // the descendant role sits on the nested <table> element itself (round 6)
	RoleSpell    int    // spelling of role values: as is, trailing blank, leading blank, capitalised, with a fallback role after it
	LongPage     bool   // the page has more than 500 words (the first extraction pass decides)
	EditSpell    int    // spelling of the contenteditable attribute on a <div>: ="true", ="", bare, ="plaintext-only"
	Place        string // div, section, blockquote, layout-td
}

var (
	tfRoles    = []string{"", "presentation", "grid", "treegrid", "main"}
	tfDesc     = []string{"", "row", "gridcell", "search", "navigation", "complementary"}
	tfRows     = []int{3, 1, 2, 19, 20}
	tfCols     = []int{4, 1, 2, 5}
	tfHeaders  = []string{"", "caption", "thead", "tfoot", "colgroup", "col", "th", "th-button", "th-rowhead", "th-corner", "th-img"}
	tfCellAttr = []string{"", "abbr", "headers", "scope", "loneabbr", "negspan", "loneabbr-nested"}
	tfObjects  = []string{"", "embed", "object", "applet", "iframe"}
	tfCells    = []int{0, 10, 11}
	tfPlaces   = []string{"div", "section", "blockquote", "layout-td"}
)

// tfDims lists the size of every dimension (index 0 of each = the neutral value).
var tfDims = []int{4, len(tfRoles), len(tfDesc), 2, 2, len(tfRows), len(tfCols), len(tfHeaders), len(tfCellAttr), 2, len(tfCells), len(tfObjects)}

func tfGridSize() int {
	n := 1
	for _, d := range tfDims {
		n *= d
	}
	return n
}

func tfFromDigits(d []int) tableFeat {
	f := tableFeat{Editable: d[0] >= 1, EditableAt: []string{"", "div", "body", "html"}[d[0]], Role: tfRoles[d[1]], DescRole: tfDesc[d[2]], Datatable0: d[3] == 1, Nested: d[4] == 1,
		Rows: tfRows[d[5]], Cols: tfCols[d[6]], Header: tfHeaders[d[7]], CellAttr: tfCellAttr[d[8]], Summary: d[9] == 1, Object: tfObjects[d[11]]}
	// the cell-count dimension only exists at 3 x 4
	if f.Rows == 3 && f.Cols == 4 {
		f.Cells = tfCells[d[10]]
	}
	return f
}

func tfFromIndex(k int) (tableFeat, []int) {
	d := make([]int, len(tfDims))
	for i, n := range tfDims {
		d[i] = k % n
		k /= n
	}
	return tfFromDigits(d), d
}

// expect is the reference implementation of the documented cascade.
func (f tableFeat) expect() (data bool, rule string) {
	cells := f.Cells
	if cells == 0 {
		cells = f.Rows * f.Cols
	}
	rows := f.Rows
	if f.Header == "thead" || f.Header == "tfoot" || f.Header == "th" || f.Header == "th-button" || f.Header == "th-corner" {
		rows++ // the header structure brings its own row
	}
	switch {
	case f.Editable:
		return false, "editable"
	case f.Role == "presentation":
		return false, "role-presentation"
	case f.Role != "":
		return true, "role-on-table"
	case f.DescRole != "":
		return true, "role-on-descendant"
	case f.Datatable0:
		return false, "datatable0"
	case f.Nested:
		return false, "nested"
	case rows <= 1:
		return false, "one-row"
	case f.Cols <= 1:
		return false, "one-column"
	case f.Header != "":
		return true, "header-structure"
	case f.CellAttr != "" && f.CellAttr != "negspan": // a span that is not a positive number is no span
		return true, "cell-attribute"
	case f.Summary:
		return true, "summary"
	case f.Cols >= 5:
		return true, "five-columns"
	case rows >= 20:
		return true, "twenty-rows"
	case cells <= 10:
		return false, "ten-cells"
	case f.Object != "":
		return false, "embedded-object"
	}
	return true, "default"
}

type tokCounter struct{ n int }

func (t *tokCounter) tok() string { t.n++; return fmt.Sprintf("w%dq", t.n) }
func (t *tokCounter) toks(n int) string {
	var s []string
	for i := 0; i < n; i++ {
		s = append(s, t.tok())
	}
	return strings.Join(s, " ")
}

// spellRole writes a role value in one of its legal spellings.
func (f tableFeat) spellRole(role string) string {
	switch f.RoleSpell % 5 {
	case 1:
		return role + " "
	case 2:
		return " " + role
	case 3:
		return strings.ToUpper(role[:1]) + role[1:]
	case 4:
		return role + " none"
	}
	return role
}

func (f tableFeat) html(g *tokCounter) string {
	var sb strings.Builder
	sb.WriteString("<table")
	if f.Role != "" {
		sb.WriteString(` role="` + f.spellRole(f.Role) + `"`)
	}
	if f.Datatable0 {
		sb.WriteString(` datatable="0"`)
	}
	if f.Summary {
		sb.WriteString(` summary="s"`)
	}
	sb.WriteString(">")
	if f.BlankCap && f.Header != "" && f.Header != "caption" {
		sb.WriteString("<caption> </caption>")
	}
	switch f.Header {
	case "caption":
		sb.WriteString("<caption>" + g.tok() + "</caption>")
	case "colgroup":
		sb.WriteString("<colgroup></colgroup>")
	case "col":
		sb.WriteString("<col>")
	case "thead":
		sb.WriteString("<thead><tr>")
		for c := 0; c < f.Cols; c++ {
			sb.WriteString("<td>" + g.tok() + "</td>")
		}
		sb.WriteString("</tr></thead>")
	}
	cells := f.Cells
	if cells == 0 {
		cells = f.Rows * f.Cols
	}
	if f.Header == "th" || f.Header == "th-button" || f.Header == "th-corner" {
		sb.WriteString("<tr>")
		for c := 0; c < f.Cols; c++ {
			if f.Header == "th-corner" && c == 0 && f.Cols > 1 {
				// the empty corner cell of a cross-tab
				sb.WriteString("<th></th>")
			} else if f.Header == "th-button" {
				// a sortable column header: the label sits inside a button
				sb.WriteString("<th><button type=\"button\">" + g.tok() + "</button></th>")
			} else {
				sb.WriteString("<th>" + g.tok() + "</th>")
			}
		}
		sb.WriteString("</tr>")
	}
	remaining := cells
	for r := 0; r < f.Rows; r++ {
		sb.WriteString("<tr")
		if r == 0 && f.DescRole == "row" {
			sb.WriteString(` role="` + f.spellRole("row") + `"`)
		}
		if r == 0 && f.CellAttr == "negspan" {
			sb.WriteString(` rowspan="-1"`)
		}
		sb.WriteString(">")
		n := f.Cols
		rowsLeft := f.Rows - r - 1
		if r > 0 {
			n = remaining - rowsLeft
			if n > f.Cols {
				n = f.Cols
			}
			if n < 1 {
				n = 1
			}
		}
		for c := 0; c < n; c++ {
			if f.Header == "th-img" && c == 0 && n > 1 {
				if cells > 10 && f.Object == "" {
					// a row header that is only a picture (no text): still a header cell, and a cell
					sb.WriteString(`<th><img src="/flag` + fmt.Sprint(r) + `.png" width="16" height="11"></th>`)
				} else {
					sb.WriteString("<th>" + g.tok() + "</th>")
				}
				continue
			}
			if f.Header == "th-rowhead" && c == 0 && n > 1 {
				// row headers: the first cell of every row is a <th>
				sb.WriteString("<th>" + g.tok() + "</th>")
				continue
			}
			sb.WriteString("<td")
			first := r == 0 && (c == 0 || (c == 1 && (f.Header == "th-rowhead" || f.Header == "th-img") && n > 1))
			if first {
				switch f.CellAttr {
				case "negspan":
					sb.WriteString(` colspan="-1"`)
				case "abbr":
					sb.WriteString(` abbr="a"`)
				case "headers":
					sb.WriteString(` headers="h"`)
				case "scope":
					sb.WriteString(` scope="col"`)
				}
				if f.DescRole != "" && f.DescRole != "row" && !(f.DescOnNested && f.Nested) {
					sb.WriteString(` role="` + f.spellRole(f.DescRole) + `"`)
				}
			}
			sb.WriteString(">")
			if first && f.CellAttr == "loneabbr-nested" {
				sb.WriteString(`<abbr title="t"><b>` + g.tok() + `</b></abbr>`)
			} else if first && f.CellAttr == "loneabbr" {
				sb.WriteString("<abbr>" + g.tok() + "</abbr>")
			} else {
				sb.WriteString(g.tok())
			}
			last := r == f.Rows-1 && c == n-1
			if last && f.Nested {
				if f.DescOnNested && f.DescRole != "" && f.DescRole != "row" {
					// the nested <table> element is itself a direct descendant of the outer table
					sb.WriteString(`<table role="` + f.spellRole(f.DescRole) + `"><tr><td>` + g.tok() + "</td></tr></table>")
				} else {
					sb.WriteString("<table><tr><td>" + g.tok() + "</td></tr></table>")
				}
			}
			if last && f.Object != "" {
				switch f.Object {
				case "embed":
					sb.WriteString(`<embed src="/x.swf">`)
				case "iframe":
					sb.WriteString(`<iframe src="/x.html"></iframe>`)
				default:
					sb.WriteString("<" + f.Object + "></" + f.Object + ">")
				}
			}
			sb.WriteString("</td>")
		}
		remaining -= n
		sb.WriteString("</tr>")
	}
	if f.Header == "tfoot" {
		sb.WriteString("<tfoot><tr>")
		for c := 0; c < f.Cols; c++ {
			sb.WriteString("<td>" + g.tok() + "</td>")
		}
		sb.WriteString("</tr></tfoot>")
	}
	sb.WriteString("</table>")
	s := sb.String()
	if f.Editable && (f.EditableAt == "div" || f.EditableAt == "") {
		s = `<div` + []string{` contenteditable="true"`, ` contenteditable=""`, ` contenteditable`, ` contenteditable="plaintext-only"`}[f.EditSpell%4] + `>` + s + `</div>`
	}
	switch f.Place {
	case "section":
		s = "<article><section>" + s + "</section></article>"
	case "blockquote":
		s = "<blockquote>" + s + "</blockquote>"
	case "layout-td":
		s = `<table role="presentation"><tr><td>` + g.toks(25) + `</td><td>` + s + `</td></tr></table>`
	default:
		s = "<div>" + s + "</div>"
	}
	return s
}

// doc returns the page and the range (lo, hi] of the token numbers written inside the table under test.
func (f tableFeat) docRange() (string, int, int) {
	g := &tokCounter{}
	htmlAttr, bodyAttr := "", ""
	if f.Editable && f.EditableAt == "html" {
		htmlAttr = ` contenteditable="TRUE"`
	}
	if f.Editable && f.EditableAt == "body" {
		bodyAttr = ` contenteditable="true"`
	}
	head := `<html` + htmlAttr + `><head><title>zz</title></head><body` + bodyAttr + `><div><p>` + g.toks(60) + `</p><p>` + g.toks(60) + `</p>`
	// another table earlier in the same document: the verdict on one table must not depend on the tables before it
	switch f.Pre {
	case 1:
		head += `<table><tr><td scope="col">` + g.tok() + `</td><td>` + g.tok() + `</td></tr><tr><td>` + g.tok() + `</td><td>` + g.tok() + `</td></tr><tr><td>` + g.tok() + `</td><td>` + g.tok() + `</td></tr></table><p>` + g.toks(40) + `</p>`
	case 2:
		head += `<table><tr><td headers="h">` + g.tok() + `</td><td>` + g.tok() + `</td><td>` + g.tok() + `</td></tr><tr><td>` + g.tok() + `</td><td>` + g.tok() + `</td><td>` + g.tok() + `</td></tr></table><p>` + g.toks(40) + `</p>`
	case 3:
		head += `<table><tr><td><abbr>` + g.tok() + `</abbr></td><td>` + g.tok() + `</td></tr><tr><td>` + g.tok() + `</td><td>` + g.tok() + `</td></tr></table><p>` + g.toks(40) + `</p>`
	case 4:
		head += `<table><tr><td>` + g.tok() + `</td><td>` + g.tok() + `</td></tr><tr><td>` + g.tok() + `</td><td>` + g.tok() + `</td></tr></table><p>` + g.toks(40) + `</p>`
	case 5:
		head += `<table><caption>` + g.tok() + `</caption><tr><th>` + g.tok() + `</th><th>` + g.tok() + `</th></tr><tr><td>` + g.tok() + `</td><td>` + g.tok() + `</td></tr></table><p>` + g.toks(40) + `</p>`
	}
	lo := g.n
	tbl := f.html(g)
	hi := g.n
	tail := `<p>` + g.toks(60) + `</p>`
	if f.LongPage {
		for i := 0; i < 5; i++ {
			tail += `<p>` + g.toks(90) + `</p>`
		}
	}
	return head + tbl + tail + `</div></body></html>`, lo, hi
}

func (f tableFeat) doc() string {
	s, _, _ := f.docRange()
	return s
}

func genTableDoc(r *RNG) string {
	f, _ := tfFromIndex(r.Intn(tfGridSize()))
	f.Place = tfPlaces[r.Intn(len(tfPlaces))]
	return f.doc()
}
