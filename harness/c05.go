package main

import (
	"fmt"
	"regexp"
	"strings"

	"golang.org/x/net/html"
)

// C05 — distilled HTML is inert. Same documents as C04, with attribute noise
// (id, class, style, onclick, onload, data-*, unknown attributes) on every
// generated element; the observer walks Result.Node.

func init() {
	register(&Prop{
		ID:   "C05",
		Rule: "the documents of C04 (random G-article pages and the carrier x placement grid) with id/class/style/onclick/onload/data-*/unknown attributes stamped on every generated element (unique values, so a surviving attribute identifies its origin). Every element and attribute of Result.Node is inspected. Non-trivial = output contains elements; distinct = distinct (output path kinds present: text, list, image, picture, figure, caption, video, table, embed).",
		Assumptions: []string{
			"the embed placeholder wrapper is the div with class embed-placeholder; it may carry exactly class, data-type and data-id",
		},
		N: func(tier string) int {
			if tier == "quick" {
				return 30000
			}
			return 300000
		},
		Floors: func(tier string) map[string]int64 {
			return map[string]int64{"elements_inspected": 100000, "attributes_inspected": 20000, "out_table": 300, "out_figure": 300, "out_video": 100, "out_placeholder": 300}
		},
		Run: runC05,
	})
}

var rxRawMarkup = regexp.MustCompile(`(?i)<(script|style)\b|<[a-z][^>]*\s(on[a-z]+|id|class|style)\s*=`)

func runC05(c *Ctx, idx int) {
	ar, ok := c.c04Doc(idx, true)
	if !ok {
		return
	}
	var nel, nattr int64
	kinds := map[string]bool{}
	bad := false
	walk(ar.Res.Node, func(n *html.Node) bool {
		if bad || n.Type != html.ElementNode {
			return !bad
		}
		if n == ar.Res.Node {
			// the container div created by the distiller
			if len(n.Attr) != 0 {
				c.Violation("container-attrs", "the content div carries attributes", ar.witness(nil))
				bad = true
			}
			return !bad
		}
		nel++
		switch n.Data {
		case "table":
			kinds["table"] = true
		case "figure":
			kinds["figure"] = true
		case "figcaption":
			kinds["caption"] = true
		case "video":
			kinds["video"] = true
		case "img":
			kinds["image"] = true
		case "picture":
			kinds["picture"] = true
		case "ul", "ol":
			kinds["list"] = true
		case "p":
			kinds["text"] = true
		case "blockquote":
			kinds["quote"] = true
		}
		report := func(sig, text string) {
			c.Violation(sig, text, ar.witness(map[string]any{"element": trunc(outer(n), 600)}))
			bad = true
		}
		if n.Data == "noscript" {
			// what the parser keeps of a noscript element is its markup as text; written into the
			// output as it is, it is unsanitised markup for a reader without scripting
			raw := ""
			for ch := n.FirstChild; ch != nil; ch = ch.NextSibling {
				if ch.Type == html.TextNode {
					raw += ch.Data
				}
			}
			if rxRawMarkup.MatchString(raw) {
				report("raw-markup-in-noscript:"+pathKind(n), fmt.Sprintf("a <noscript> in the distilled HTML (inside %s) carries unsanitised markup as text: %q", pathKind(n), trunc(raw, 200)))
				return false
			}
		}
		if n.Data == "script" || n.Data == "style" {
			report("element:"+n.Data+":"+pathKind(n), fmt.Sprintf("distilled HTML contains a <%s> element (inside %s)", n.Data, pathKind(n)))
			return false
		}
		ph := isPlaceholder(n)
		if ph && strings.HasPrefix(attr(n, "data-id"), "forged") {
			// the markers of a page element, not of a wrapper the distiller created
			report("forged-placeholder:"+pathKind(n.Parent), fmt.Sprintf("a page element keeps class=%q data-type=%q data-id=%q: only the wrapper the distiller itself creates may carry these", attr(n, "class"), attr(n, "data-type"), attr(n, "data-id")))
			return false
		}
		if ph {
			kinds["placeholder"] = true
			for _, a := range n.Attr {
				if a.Key != "class" && a.Key != "data-type" && a.Key != "data-id" {
					report("placeholder-attr:"+a.Key, "embed placeholder carries unexpected attribute "+a.Key)
					return false
				}
			}
			if attr(n, "class") != "embed-placeholder" {
				report("placeholder-class", "embed placeholder class is "+attr(n, "class"))
				return false
			}
			return true
		}
		for _, a := range n.Attr {
			nattr++
			k := strings.ToLower(a.Key)
			switch {
			case strings.HasPrefix(k, "on"):
				report("attr:on*:"+n.Data+":"+pathKind(n), fmt.Sprintf("<%s> keeps event handler %s=%q (inside %s)", n.Data, a.Key, a.Val, pathKind(n)))
			case k == "id" || k == "class" || k == "style":
				report("attr:"+k+":"+n.Data+":"+pathKind(n), fmt.Sprintf("<%s> keeps %s=%q (inside %s)", n.Data, a.Key, a.Val, pathKind(n)))
			case strings.HasPrefix(k, "data-"):
				report("attr:data-*:"+n.Data+":"+pathKind(n), fmt.Sprintf("<%s> keeps %s=%q (inside %s)", n.Data, a.Key, a.Val, pathKind(n)))
			}
			if bad {
				return false
			}
		}
		return true
	})
	if bad {
		return
	}
	c.Count("mxss_carriers", int64(ar.G.L.MXSS))
	c.Count("elements_inspected", nel)
	c.Count("attributes_inspected", nattr)
	var ks []string
	for _, k := range []string{"text", "list", "quote", "image", "picture", "figure", "caption", "video", "table", "placeholder"} {
		if kinds[k] {
			ks = append(ks, k)
			c.Inc("out_" + k)
		}
	}
	if nel > 0 {
		c.Sig(strings.Join(ks, ","))
	}
	c.Sample(func() any {
		return map[string]any{"case": idx, "html": trunc(ar.Src, 1500), "elements": nel, "attributes": nattr}
	})
}

// pathKind names the kind of output path an element sits in.
func pathKind(n *html.Node) string {
	for p := n; p != nil; p = p.Parent {
		if p.Type != html.ElementNode {
			continue
		}
		if isPlaceholder(p) {
			return "placeholder"
		}
		switch p.Data {
		case "table", "figcaption", "figure", "video", "picture":
			return p.Data
		}
	}
	return "text"
}
