package main

import (
	"fmt"
	nurl "net/url"
	"strings"

	"github.com/go-shiori/dom"
	distiller "github.com/markusmobius/go-domdistiller"
	"golang.org/x/net/html"
	"golang.org/x/net/html/atom"
)

// G-url: page URLs, plain and odd.
var gURLs = []string{
	"http://example.com/a/1", "http://example.com/a/b/2/", "http://example.com/?p=1", "http://example.com",
	"http://example.com/", "https://user:pw@example.com:8443/x/y-1.html?q=2#f", "http://example.com/[*!]/1",
	"http://KK.example/a/1", "http://KK.example/a/1", "http://İstanbul.example/p/2", "http://ſite.example/3/", "http://Ångstrom.example/x?page=4",
	"file:///x/1.html", "mailto:x@y", "http://[::1]/a/1", "http://[::1]:8080/a/page/2/", "HTTP://EXAMPLE.COM/A%2F/1",
	"http://example.com/a//b//1//", "http://example.com/story/alpha/page/3/", "http://example.com/a?id=77&page=5",
	"http://example.com/a-2.html", "http://example.com/a_p3.html", "http://example.com/12345678901234567890123/2",
	"http://example.com/99999999999999999999", "http://example.com/a/b/c/d/e/f/g/h/i/j/1?x=1&x=2&x=3&page=2&page=3",
	"ftp://example.com/a/1", "javascript:void(0)", "//example.com/a/1", "/relative/only/1", "?page=2", "#frag", "http://example.com/%zz",
	"http://example.com/a/1?", "http://example.com/a/1#", "http://example.com:0/", "http://./", "http://a/b/../../../c/2", "http://example.com/a/éè/2",
	"data:text/html,<p>x</p>", "http://example.com/page/2/page/3/page/4/", "http://example.com/2011/05/17/story-2/",
}

func parseOddURL(s string) *nurl.URL {
	u, err := nurl.Parse(s)
	if err != nil {
		return nil
	}
	return u
}

func (r *RNG) opts() *distiller.Options {
	if r.Intn(10) == 0 {
		return nil
	}
	o := &distiller.Options{}
	if r.Intn(4) == 0 {
		o.LogFlags = distiller.LogFlag(r.Intn(32))
	}
	if r.Intn(6) != 0 {
		o.OriginalURL = parseOddURL(gURLs[r.Intn(len(gURLs))])
	}
	o.SkipPagination = r.Intn(5) == 0
	o.PaginationAlgo = distiller.PaginationAlgo(r.Intn(2))
	if r.Intn(40) == 0 {
		o.PaginationAlgo = distiller.PaginationAlgo(2 + r.Intn(5)) // out-of-range values are accepted by the type
	}
	return o
}

var soupTags = []string{"a", "p", "div", "span", "b", "li", "ul", "ol", "table", "tr", "td", "th", "tbody", "caption", "pre", "blockquote", "figure", "figcaption", "img", "picture", "source", "video", "track", "iframe", "object", "param", "font", "br", "hr", "h1", "h2", "h3", "noscript", "script", "style", "form", "input", "select", "option", "svg", "title", "head", "body", "html", "meta", "abbr", "col", "colgroup", "thead", "tfoot", "embed", "applet", "textarea", "button", "section", "header", "article", "nav", "aside", "summary", "details", "time", "link", "template", "math", "frameset", "base", "label", "dl", "dt", "dd", "center", "marquee", "ruby", "rt"}

var soupAttrs = []string{`href="javascript:x()"`, `href="javascript:"`, `href="?p=2"`, `href="/a/2"`, `href="2"`, `href="http://example.com/a/b/3"`, `href=""`, `href="#"`, `href="action=edit&section=1"`, `href="http://[bad"`, `href="mailto:a@b"`, `href="HTTP://KK.EXAMPLE/a/2"`, `href="http://kk.example/2"`, `href="//example.com/a/4"`, `href="page/2"`, `href="../3"`,
	`class="twitter-tweet"`, `class="lazy-image-placeholder" data-src="/i.png"`, `class="lazy-image-placeholder"`, `src="/i.png"`, `src="data:image/png;base64,AAAA"`, `src="data:image/svg+xml;base64,"`, `src="https://www.youtube.com/embed/"`, `src="https://www.youtube.com/embed/abc?x=1&y"`, `src="https://player.vimeo.com/video/"`, `src="https://player.vimeo.com/video/123?a=%zz"`, `src="//twitter.com/x" data-tweet-id="5"`, `src="http://[::1"`, `srcset="a.jpg 1x, b.jpg 2x"`, `srcset=","`, `srcset=""`, `srcset="  ,, x 1x,,"`, `data-srcset="x.png 2x"`, `data-src=""`, `data-original="o.jpg"`,
	`style="display:none"`, `style="display:"`, `style="visibility:hidden"`, `hidden`, `aria-hidden="true"`, `role="row"`, `role="navigation"`, `role="presentation"`, `role="grid"`, `class="sidebar"`, `class="byline"`, `rel="author"`, `class="comment"`, `id="comments"`, `class="sharing"`, `data-component="share"`, `class="mw-editsection"`,
	`itemscope itemtype="http://schema.org/Article"`, `itemscope itemtype="http://schema.org/Person"`, `itemscope itemtype="http://schema.org/ImageObject"`, `itemscope`, `itemtype="http://schema.org/Article"`, `itemprop="author"`, `itemprop="image"`, `itemprop="headline name"`, `itemprop=""`, `itemprop="author" rel="author"`, `content="x"`,
	`contenteditable="true"`, `colspan="99999999999999999999"`, `colspan="-1"`, `colspan="0"`, `rowspan="-3"`, `datatable="0"`, `summary="x"`, `abbr="x"`, `headers="h"`, `scope="col"`,
	`property="og:title" content="x"`, `property="og:image" content=""`, `property="og:type" content="article"`, `property="og:url" content="http://x/"`, `property="og:image:width" content="99999999999999999999"`, `property="article:author" content="a"`, `property="og:image:height" content="abc"`, `name="IE_RM_OFF" content="true"`, `name="title" content="t"`, `name="copyright" content="c"`,
	`poster="p.png"`, `type="application/x-shockwave-flash" data="http://youtube.com/v/1&a=b"`, `data="http://www.youtube.com/v/"`, `name="movie" value="http://www.youtube.com/v/"`, `name="movie" value="http://www.youtube.com/v/xyz&a"`, `prefix="og: http://ogp.me/ns# article: http://ogp.me/ns/article#"`, `prefix="og:"`, `prefix=": :"`, `xmlns:og="http://ogp.me/ns#"`, `class="dateline"`, `class="byline-name"`, `publisher="p"`, `width="600" height="400"`, `width="abc"`, `height="-5"`, `lang="zh"`, `dir="rtl"`}

var soupText = []string{"1", "2", "3", "10", "11", "12", "next", "prev", "previous", "Next »", "« Prev", "newer", "older", "page", "of", "|", " ", "[1]", "(2)", "3.", "中文字符", "한국어", "café", "© Reuters", "comments", "Tweet", "share", "-", "&amp;", "&#0;", "&#x110000;", "​", "é"}

func (r *RNG) soup(depth int, sb *strings.Builder, budget *int) {
	for *budget > 0 && r.Intn(4) != 0 {
		*budget--
		switch r.Intn(7) {
		case 0:
			n := 1 + r.Intn(25)
			for i := 0; i < n; i++ {
				fmt.Fprintf(sb, "w%d ", r.Intn(50))
			}
		case 1:
			sb.WriteString(soupText[r.Intn(len(soupText))] + " ")
		default:
			t := soupTags[r.Intn(len(soupTags))]
			sb.WriteString("<" + t)
			for r.Intn(3) == 0 {
				sb.WriteString(" " + soupAttrs[r.Intn(len(soupAttrs))])
			}
			sb.WriteString(">")
			if depth < 14 {
				r.soup(depth+1, sb, budget)
			}
			if r.Intn(8) != 0 {
				sb.WriteString("</" + t + ">")
			}
		}
	}
}

func (r *RNG) soupDoc() string {
	var sb strings.Builder
	b := 10 + r.Intn(150)
	if r.Intn(3) == 0 {
		sb.WriteString("<!DOCTYPE html><html><head><title>" + soupText[r.Intn(len(soupText))] + " - x | y</title></head><body>")
	}
	r.soup(0, &sb, &b)
	return sb.String()
}

// mutateBytes applies structure-aware damage to a well-formed page.
func (r *RNG) mutateBytes(src string) string {
	b := []byte(src)
	n := 1 + r.Intn(6)
	for i := 0; i < n && len(b) > 0; i++ {
		p := r.Intn(len(b))
		switch r.Intn(12) {
		case 0: // truncate
			b = b[:p]
		case 1: // drop a closing tag
			if j := strings.Index(string(b[p:]), "</"); j >= 0 {
				k := strings.IndexByte(string(b[p+j:]), '>')
				if k >= 0 {
					b = append(b[:p+j], b[p+j+k+1:]...)
				}
			}
		case 2: // NUL bytes
			b = append(b[:p], append([]byte{0, 0}, b[p:]...)...)
		case 3: // invalid UTF-8
			b = append(b[:p], append([]byte{0xff, 0xfe, 0xc3, 0x28, 0xe2, 0x82}, b[p:]...)...)
		case 4: // duplicate a slice elsewhere
			q := r.Intn(len(b))
			if q < p {
				p, q = q, p
			}
			if q-p > 2000 {
				q = p + 2000
			}
			ins := r.Intn(len(b))
			chunk := append([]byte{}, b[p:q]...)
			b = append(b[:ins], append(chunk, b[ins:]...)...)
		case 5: // flip a '<'
			if j := strings.IndexByte(string(b[p:]), '<'); j >= 0 {
				b[p+j] = '&'
			}
		case 6: // unbalanced quote
			if j := strings.IndexByte(string(b[p:]), '"'); j >= 0 {
				b = append(b[:p+j], b[p+j+1:]...)
			}
		case 7: // inject misnested tags
			ins := []string{"<table><tr><p>", "</td></tr></table></div>", "<a href=javascript:x>", "<select><p>", "</p></p></li>", "<li><li><ul>", "<svg><p>", "<math><title>", "<template>", "<plaintext>", "<frameset>", "<!--", "<![CDATA[", "<script>", "<noscript><img src=x>", "<body onload=x>", "<html lang=ko>", "<head>", "</body></html><p>late"}[r.Intn(19)]
			b = append(b[:p], append([]byte(ins), b[p:]...)...)
		case 8: // huge attribute
			ins := ` data-big="` + strings.Repeat("x", 1000+r.Intn(20000)) + `"`
			if j := strings.IndexByte(string(b[p:]), '>'); j >= 0 {
				b = append(b[:p+j], append([]byte(ins), b[p+j:]...)...)
			}
		case 9: // high bytes / latin-1
			b = append(b[:p], append([]byte{0xe9, 0xa0, 0xbb, 0xab}, b[p:]...)...)
		case 10: // CR / form feed / odd whitespace
			b = append(b[:p], append([]byte("\r\f\v\t   "), b[p:]...)...)
		case 11: // delete a range
			q := p + r.Intn(200)
			if q > len(b) {
				q = len(b)
			}
			b = append(b[:p], b[q:]...)
		}
	}
	switch r.Intn(20) {
	case 0:
		b = append([]byte{0xff, 0xfe}, b...) // UTF-16 LE BOM on UTF-8 text
	case 1:
		b = append([]byte{0xef, 0xbb, 0xbf}, b...)
	case 2:
		b = append([]byte{0xfe, 0xff}, b...)
	}
	return string(b)
}

// bigInput returns one of the size-stress documents (bounded: <= ~1 MB and <= 2000 levels, except the flat run of <= 1.4 million siblings = 5.6 MB).
func bigInput(kind int, r *RNG) (string, string) {
	var sb strings.Builder
	switch kind % 13 {
	case 12:
		// a long flat run of wordless siblings after a page-number link (no nesting at all)
		n := 1200000 + r.Intn(200000)
		if r.Chance(2, 3) {
			n = 20000 + r.Intn(200000) // the long run costs ~1 GB of memory; not every time
		}
		return `<html><body><p>w1q w2q w3q.</p><a href="/a/2">2</a>` + strings.Repeat("<br>", n) + `</body></html>`, fmt.Sprintf("numeric link followed by %d wordless siblings", n)
	case 0:
		d := 500 + r.Intn(1500)
		sb.WriteString(strings.Repeat("<ul><li>x ", d))
		return sb.String(), fmt.Sprintf("nested ul/li depth %d", d)
	case 1:
		d := 500 + r.Intn(1500)
		sb.WriteString(strings.Repeat("<div>", d) + "text " + strings.Repeat("</div>", d))
		return sb.String(), fmt.Sprintf("nested div depth %d", d)
	case 2:
		n := 20000 + r.Intn(30000)
		sb.WriteString("<ul>" + strings.Repeat("<li>item", n))
		return sb.String(), fmt.Sprintf("%d li", n)
	case 3:
		n := 5000 + r.Intn(5000)
		for i := 0; i < n; i++ {
			fmt.Fprintf(&sb, `<a href="/p/%d">%d</a> `, i, i%50)
		}
		return sb.String(), fmt.Sprintf("%d numeric anchors", n)
	case 4:
		n := 2000 + r.Intn(3000)
		for i := 0; i < n; i++ {
			fmt.Fprintf(&sb, "<p>%s</p>", strings.Repeat("word ", 30))
		}
		return sb.String(), fmt.Sprintf("%d paragraphs", n)
	case 5:
		d := 300 + r.Intn(700)
		sb.WriteString(strings.Repeat("<table><tr><td>", d) + "x")
		return sb.String(), fmt.Sprintf("nested tables depth %d", d)
	case 6:
		d := 500 + r.Intn(1500)
		sb.WriteString(strings.Repeat("<blockquote><b><i><span>", d/4) + strings.Repeat("w ", 40))
		return sb.String(), fmt.Sprintf("nested inline/quote depth %d", d)
	case 7:
		return "", "empty input"
	case 8:
		return strings.Repeat(" \n\t", 1000+r.Intn(100000)), "only whitespace"
	case 9:
		n := 1000 + r.Intn(3000)
		sb.WriteString("<table>")
		for i := 0; i < n; i++ {
			sb.WriteString("<tr><td>a</td><td>b</td><td colspan=3>c</td></tr>")
		}
		return sb.String(), fmt.Sprintf("table with %d rows", n)
	case 10:
		n := 500 + r.Intn(1000)
		for i := 0; i < n; i++ {
			fmt.Fprintf(&sb, `<div itemscope itemtype="http://schema.org/Article"><span itemprop="author" itemscope itemtype="http://schema.org/Person"><span itemprop="name">n%d</span></span>`, i)
		}
		return sb.String(), fmt.Sprintf("%d nested schema.org items", n)
	default:
		n := 200000 + r.Intn(700000)
		b := make([]byte, n)
		for i := range b {
			b[i] = byte(r.U64())
		}
		return string(b), fmt.Sprintf("%d random bytes", n)
	}
}

// handBuilt returns hand-made root nodes that html.Parse would never produce.
func handBuilt(r *RNG) (*html.Node, string) {
	text := func(n int) *html.Node {
		var ws []string
		for i := 0; i < n; i++ {
			ws = append(ws, fmt.Sprintf("w%dq", i+1))
		}
		return &html.Node{Type: html.TextNode, Data: strings.Join(ws, " ")}
	}
	el := func(tag string, attrs ...string) *html.Node {
		n := &html.Node{Type: html.ElementNode, Data: tag, DataAtom: atom.Lookup([]byte(tag))}
		for i := 0; i+1 < len(attrs); i += 2 {
			n.Attr = append(n.Attr, html.Attribute{Key: attrs[i], Val: attrs[i+1]})
		}
		return n
	}
	words := 1 + r.Intn(60)
	k := r.Intn(24)
	switch k {
	case 0:
		t := inlineTags[r.Intn(len(inlineTags))]
		n := el(t)
		n.AppendChild(text(words))
		return n, "inline root <" + t + "> with text"
	case 1:
		n := el("a", "href", "javascript:void(0)")
		n.AppendChild(text(words))
		return n, "a[href=javascript:] root with one text child"
	case 2:
		n := el("a", "href", "javascript:void(0)")
		return n, "a[href=javascript:] root without children"
	case 3:
		n := &html.Node{Type: html.ElementNode, Data: "span"} // no DataAtom
		n.AppendChild(text(words))
		return n, "element without DataAtom"
	case 4:
		return text(words), "text node root"
	case 5:
		return &html.Node{Type: html.CommentNode, Data: "c"}, "comment root"
	case 6:
		return &html.Node{Type: html.DoctypeNode, Data: "html"}, "doctype root"
	case 7:
		return &html.Node{Type: html.DocumentNode}, "empty document node"
	case 8:
		d := &html.Node{Type: html.DocumentNode}
		d.AppendChild(&html.Node{Type: html.CommentNode, Data: "only"})
		d.AppendChild(text(3))
		return d, "document with comment and text only"
	case 9:
		n := el("li")
		n.AppendChild(text(words))
		return n, "li root"
	case 10:
		n := el("br")
		return n, "br root"
	case 11:
		n := el("table")
		tr := el("tr")
		td := el("td")
		td.AppendChild(text(words))
		tr.AppendChild(td)
		n.AppendChild(tr) // no tbody
		return n, "table root without tbody"
	case 12:
		n := el("font", "color", "red")
		n.AppendChild(text(words))
		return n, "font root"
	case 13:
		n := el("td")
		n.AppendChild(text(words))
		return n, "td root"
	case 14:
		n := el("img", "src", "x.png")
		return n, "img root"
	case 15:
		n := el("figure")
		n.AppendChild(el("img", "src", "x.png"))
		return n, "figure root"
	case 16:
		n := el("video", "src", "v.mp4", "poster", "p.png")
		return n, "video root"
	case 17:
		n := el("iframe", "src", "https://www.youtube.com/embed/abc")
		return n, "youtube iframe root"
	case 18:
		n := el("blockquote", "class", "twitter-tweet")
		a := el("a", "href", "https://twitter.com/u/status/1")
		a.AppendChild(text(1))
		n.AppendChild(a)
		return n, "twitter blockquote root"
	case 19:
		n := el("html")
		return n, "empty html element"
	case 20:
		n := el("body")
		n.AppendChild(text(words))
		return n, "body root without html"
	case 21:
		n := el("p")
		a := el("a", "href", "javascript:x()")
		a.AppendChild(text(2))
		n.AppendChild(text(words))
		n.AppendChild(a)
		n.AppendChild(text(words))
		return n, "p root with js anchor"
	case 22:
		n := el("DIV") // upper-case data, as a hand-written tree may have
		n.AppendChild(text(words))
		return n, "upper-case tag name"
	default:
		n := el("span", "style", "display:none")
		n.AppendChild(text(words))
		return n, "hidden inline root"
	}
}

func allElements(doc *html.Node) []*html.Node {
	var els []*html.Node
	walk(doc, func(n *html.Node) bool {
		if n.Type == html.ElementNode {
			els = append(els, n)
		}
		return true
	})
	return els
}

func detached(n *html.Node) *html.Node { return dom.Clone(n, true) }

// parserStress builds a short fragment that drives the HTML parser through
// its insertion modes with foreign content in between: table parts, select
// and template scopes opened inside svg/math integration points and closed by
// end tags that belong to an outer scope.
func (r *RNG) parserStressParts() (outer, foreign, inner, integ, probe, end []string) {
	outer = []string{"<table>", "<table><tbody>", "<table><tbody>", "<table><thead>", "<table><tbody><tr>", "<table><tr>", "<table><tr><td>", "<table><caption>", "<table><colgroup>", "<select>", "<template>", "<div>", "<p>", "<table><tbody><tr><td><table>"}
	foreign = []string{"<svg>", "<math>", "<svg><g>", "<math><mrow>"}
	inner = []string{"<tr>", "<td>", "<th>", "<tbody>", "<thead>", "<tfoot>", "<caption>", "<colgroup>", "<table>", "<select>", "<template>", "<head>", "<body>", "<frameset>", "<html>", "<option>"}
	integ = []string{"<foreignObject>", "<desc>", "<title>", "<mtext>", "<mi>", `<annotation-xml encoding="text/html">`, `<annotation-xml encoding="application/xhtml+xml">`}
	probe = []string{"<select></select>", "<select><option>x</select>", "<template></template>", "<table></table>", "<p></p>", "<select>"}
	end = []string{"</tbody>", "</tr>", "</td>", "</table>", "</caption>", "</select>", "</template>", "</svg>", "</math>", "</p>", "</body>", "</html>", ""}
	return
}

func parserStress(r *RNG) string {
	outer, foreign, inner, integ, probe, end := r.parserStressParts()
	s := outer[r.Intn(len(outer))] + foreign[r.Intn(len(foreign))] + inner[r.Intn(len(inner))]
	if r.Chance(1, 4) {
		s += inner[r.Intn(len(inner))]
	}
	s += integ[r.Intn(len(integ))] + probe[r.Intn(len(probe))]
	for i, n := 0, 1+r.Intn(3); i < n; i++ {
		s += end[r.Intn(len(end))]
	}
	return s
}
