package main

import (
	"bytes"
	"encoding/json"
	"fmt"
	nurl "net/url"
	"regexp"
	"strconv"
	"strings"

	"github.com/go-shiori/dom"
	distiller "github.com/markusmobius/go-domdistiller"
	"github.com/markusmobius/go-domdistiller/data"
	"golang.org/x/net/html"
)

var rxTok = regexp.MustCompile(`w\d+q`)

func tokIdx(t string) int {
	n, _ := strconv.Atoi(t[1 : len(t)-1])
	return n
}

func mustURL(s string) *nurl.URL {
	u, err := nurl.Parse(s)
	if err != nil {
		panic(err)
	}
	return u
}

func parseHTML(src string) *html.Node {
	doc, err := html.Parse(strings.NewReader(src))
	if err != nil {
		panic(err)
	}
	return doc
}

func outer(n *html.Node) string {
	if n == nil {
		return "<nil>"
	}
	var b bytes.Buffer
	html.Render(&b, n)
	return b.String()
}

func attr(n *html.Node, key string) string {
	for _, a := range n.Attr {
		if a.Key == key {
			return a.Val
		}
	}
	return ""
}

func hasAttr(n *html.Node, key string) bool {
	for _, a := range n.Attr {
		if a.Key == key {
			return true
		}
	}
	return false
}

func walk(n *html.Node, f func(*html.Node) bool) {
	if n == nil {
		return
	}
	if !f(n) {
		return
	}
	for c := n.FirstChild; c != nil; c = c.NextSibling {
		walk(c, f)
	}
}

func isPlaceholder(n *html.Node) bool {
	return n.Type == html.ElementNode && n.Data == "div" && strings.Contains(" "+attr(n, "class")+" ", " embed-placeholder ")
}

// textNodeTokens returns the tokens of all text nodes under n in document
// order, tokenising per text node (never across nodes).
func textNodeTokens(n *html.Node, skip func(*html.Node) bool) []string {
	var out []string
	walk(n, func(x *html.Node) bool {
		if x.Type == html.ElementNode && skip != nil && skip(x) {
			return false
		}
		if x.Type == html.TextNode {
			out = append(out, rxTok.FindAllString(x.Data, -1)...)
		}
		return true
	})
	return out
}

func tokenSet(ts []string) map[string]bool {
	m := make(map[string]bool, len(ts))
	for _, t := range ts {
		m[t] = true
	}
	return m
}

// parseSrcset splits a srcset attribute the way a browser does: candidates
// are separated by commas that follow a descriptor or end a URL; a URL is a
// run of non-whitespace whose trailing commas are separators.
func parseSrcset(v string) []string {
	var out []string
	i := 0
	isWS := func(b byte) bool { return b == ' ' || b == '\t' || b == '\n' || b == '\r' || b == '\f' }
	for i < len(v) {
		for i < len(v) && (isWS(v[i]) || v[i] == ',') {
			i++
		}
		if i >= len(v) {
			break
		}
		j := i
		for j < len(v) && !isWS(v[j]) {
			j++
		}
		url := v[i:j]
		i = j
		if strings.HasSuffix(url, ",") {
			url = strings.TrimRight(url, ",")
		} else {
			// descriptors up to the next comma
			for i < len(v) && v[i] != ',' {
				i++
			}
		}
		if url != "" {
			out = append(out, url)
		}
	}
	return out
}

// harness' own notion of "not rendered" for output HTML (used by C09)
var rxDisplayNone = regexp.MustCompile(`(?i)display:\s*none`)
var rxVisHidden = regexp.MustCompile(`(?i)visibility:\s*(hidden|collapse)`)

func notRendered(n *html.Node) bool {
	if n.Type != html.ElementNode {
		return false
	}
	switch n.Data {
	case "script", "style":
		return true
	}
	if hasAttr(n, "hidden") || attr(n, "aria-hidden") == "true" {
		return true
	}
	st := attr(n, "style")
	return rxDisplayNone.MatchString(st) || rxVisHidden.MatchString(st)
}

// ---------------------------------------------------------------------------
// calling the distiller

type callResult struct {
	Res   *distiller.Result
	Err   error
	Panic string // panic signature, "" if none
	Stack string
}

func (c *Ctx) apply(doc *html.Node, opts *distiller.Options) callResult {
	var r callResult
	c.Calls(1)
	r.Panic, r.Stack = c.Guard(func() { r.Res, r.Err = distiller.Apply(doc, opts) })
	return r
}

func (c *Ctx) applyReader(src string, opts *distiller.Options) callResult {
	var r callResult
	c.Calls(1)
	r.Panic, r.Stack = c.Guard(func() { r.Res, r.Err = distiller.ApplyForReader(strings.NewReader(src), opts) })
	return r
}

// applyVariant delivers the same page through one of three equivalent routes
// chosen by k: bytes (ApplyForReader), the parsed document node, or its <html>
// element as root.
func (c *Ctx) applyVariant(src string, opts *distiller.Options, k int) callResult {
	switch k % 3 {
	case 1:
		return c.apply(parseHTML(src), opts)
	case 2:
		doc := parseHTML(src)
		for n := doc.FirstChild; n != nil; n = n.NextSibling {
			if n.Type == html.ElementNode && n.Data == "html" {
				return c.apply(n, opts)
			}
		}
		return c.apply(doc, opts)
	}
	return c.applyReader(src, opts)
}

// usable reports whether the call produced a result an oracle can look at. A
// panic or error in a property other than C01 makes the case unobservable
// (counted, never folded into "held").
func (c *Ctx) usable(r callResult) bool {
	if r.Panic != "" {
		c.Inc("unobservable_panic")
		return false
	}
	if r.Err != nil || r.Res == nil || r.Res.Node == nil {
		c.Inc("unobservable_error")
		return false
	}
	return true
}

type resultView struct {
	URL, Title, Text, HTML string
	WordCount              int
	Images                 []string
	Markup                 string
	Prev, Next             string
}

func viewOf(res *distiller.Result) resultView {
	v := resultView{URL: res.URL, Title: res.Title, Text: res.Text, HTML: outer(res.Node), WordCount: res.WordCount,
		Images: append([]string{}, res.ContentImages...), Markup: markupCanon(res.MarkupInfo),
		Prev: res.PaginationInfo.PrevPage, Next: res.PaginationInfo.NextPage}
	return v
}

// markupCanon renders MarkupInfo with nil and empty slices identified.
func markupCanon(m data.MarkupInfo) string {
	if m.Images == nil {
		m.Images = []data.MarkupImage{}
	}
	if m.Article.Authors == nil {
		m.Article.Authors = []string{}
	}
	b, _ := json.Marshal(m)
	return string(b)
}

// diffViews returns the names of the fields that differ ("" if equal).
func diffViews(a, b resultView, withPagination bool) string {
	var d []string
	if a.URL != b.URL {
		d = append(d, "URL")
	}
	if a.Title != b.Title {
		d = append(d, "Title")
	}
	if a.Text != b.Text {
		d = append(d, "Text")
	}
	if a.HTML != b.HTML {
		d = append(d, "HTML")
	}
	if a.WordCount != b.WordCount {
		d = append(d, "WordCount")
	}
	if strings.Join(a.Images, "\x00") != strings.Join(b.Images, "\x00") {
		d = append(d, "ContentImages")
	}
	if a.Markup != b.Markup {
		d = append(d, "MarkupInfo")
	}
	if withPagination && (a.Prev != b.Prev || a.Next != b.Next) {
		d = append(d, "PaginationInfo")
	}
	return strings.Join(d, ",")
}

func optsDesc(o *distiller.Options) map[string]any {
	if o == nil {
		return map[string]any{"nil": true}
	}
	m := map[string]any{"LogFlags": int(o.LogFlags), "SkipPagination": o.SkipPagination, "PaginationAlgo": int(o.PaginationAlgo)}
	if o.OriginalURL != nil {
		m["OriginalURL"] = o.OriginalURL.String()
	}
	return m
}

var _ = dom.OuterHTML
var _ = fmt.Sprint
