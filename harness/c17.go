package main

import (
	"fmt"

	distiller "github.com/markusmobius/go-domdistiller"
)

// C17 — conventional pagers are resolved correctly. The grid is enumerated
// exhaustively: N in 2..12 x k in 1..N x 6 URL families x 3 href forms x
// page URL without / with trailing slash (path families) x 6 separators x 4
// decorations of the current page (page-number algorithm), and x 5 label
// pairs x {with, without numbered links} (prev/next algorithm). The thorough
// tier adds 4 wrappers x {with, without surrounding article noise}.

type c17Case struct {
	sp pagerSpec
}

func c17Grid(tier string) []pagerSpec {
	var out []pagerSpec
	wraps := []int{0}
	noises := []bool{false}
	if tier == "thorough" {
		wraps = []int{0, 1, 2, 3, 4, 5}
		noises = []bool{false, true}
	}
	for _, fam := range pagerFamilies {
		for _, slash := range []bool{false, true} {
			if slash && !famAllowsSlash(fam) {
				continue
			}
			for _, form := range hrefForms {
				for N := 2; N <= 12; N++ {
					for k := 1; k <= N; k++ {
						for _, wrap := range wraps {
							for _, noise := range noises {
								for sep := 0; sep < len(pagerSeps); sep++ {
									for deco := 0; deco < 6; deco++ {
										out = append(out, pagerSpec{Fam: fam, N: N, K: k, Form: form, Slash: slash, Sep: sep, Deco: deco, Wrap: wrap, Noise: noise})
									}
								}
								for li := 0; li < len(nextLabels); li++ {
									for _, nums := range []bool{false, true} {
										out = append(out, pagerSpec{Fam: fam, N: N, K: k, Form: form, Slash: slash, Sep: 0, Deco: 0, Wrap: wrap, Noise: noise, PrevNext: true, Labels: li, WithNums: nums})
									}
								}
							}
						}
					}
				}
			}
		}
	}
	return out
}

var c17GridCache = map[string][]pagerSpec{}

func c17Specs(tier string) []pagerSpec {
	if g, ok := c17GridCache[tier]; ok {
		return g
	}
	g := c17Grid(tier)
	c17GridCache[tier] = g
	return g
}

func init() {
	register(&Prop{
		ID:   "C17",
		Rule: "exhaustive enumeration of conventional pagers: N in 2..12 x k in 1..N (77 pairs) x 11 URL families under 2 base paths (/story/alpha, /articles/story), page URL with / without a #fragment (query ?page=, query with another numeric parameter, query after a path that ends in a slash, path /page/k, bare path /k, a directory of its own /k/alpha.html, file suffix -k.html, _pk.html, and -k.html / _Pagek.html / extension-less -page-k under a dated directory /2014/07/) on 4 rotating origins (http, https, another host, a port) x href form {absolute, root-relative, path-/query-relative} x page URL {without, with trailing slash for the two path families} x {6 separators x 6 current-page decorations (plain, strong, span.current, [k], with a hidden (current) note in two spellings) for the page-number algorithm; 6 Next/Prev label pairs (incl. « Previous) x {with, without numbered links} for the prev/next algorithm}; wrappers {plain div, div.article-footer, div#sidebar} rotate in quick; thorough additionally x 6 wrappers x {with, without surrounding article noise}. Expected links are computed by resolving the generated href against the page URL. Every grid cell is a distinct non-trivial case.",
		Assumptions: []string{
			"URLs are compared in canonical form (lower-case scheme/host, no trailing slash, raw query, fragment ignored)",
			"for the prev/next algorithm nothing is demanded of a side that has no labelled anchor",
		},
		Exhaustive: func(tier string) bool { return true },
		N:          func(tier string) int { return len(c17Specs(tier)) },
		Floors: func(tier string) map[string]int64 {
			return map[string]int64{"pagenumber_pagers": 10000, "prevnext_pagers": 10000, "next_links_confirmed": 10000, "prev_links_confirmed": 10000}
		},
		Run: runC17,
	})
}

func runC17(c *Ctx, idx int) {
	sp := c17Specs(c.Tier)[idx]
	// the same pagers are met on several origins in the course of one process
	sp.Origin = (idx/16 + idx) % len(pagerOrigins)
	// likewise base path and fragment; in the quick tier also the wrapper (the thorough grid enumerates it)
	sp.Base = int(mix64(uint64(idx)*3+1) % 2)
	sp.Frag = mix64(uint64(idx)*3+2)%4 == 0
	sp.HostCase = mix64(uint64(idx)*3+4)%3 == 0
	if c.Quick() {
		sp.Wrap = []int{0, 0, 4, 5}[mix64(uint64(idx)*3+3)%4]
	}
	if sp.Fam == "dir-html" && sp.PrevNext {
		// links into another directory are a negative signal for the prev/next scorer by themselves;
		// a second one (a URL word it dislikes) is not combined with it, as for the sidebar below
		sp.Base = 0
		if sp.Wrap == 5 {
			sp.Wrap = 4
		}
	}
	if sp.Wrap == 5 {
		// a pager inside a container that calls itself a sidebar, on a URL the scorer
		// dislikes as well, is not what the property calls a conventional pager: the
		// prev/next scorer is designed to distrust it (two negative signals). One signal
		// at a time is explored.
		sp.Base = 0
	}
	r := c.RNG(idx, 1)
	pg := conventionalPager(sp, r)
	page := mustURL(pg.PageURL)
	algo := distiller.PageNumber
	if sp.PrevNext {
		algo = distiller.PrevNext
	}
	wit := func() map[string]any {
		return map[string]any{"html": pg.HTML, "page_url": pg.PageURL, "spec": pg.Desc, "algorithm": int(algo)}
	}
	c.SetInput(func() any { return wit() })
	cr := c.applyVariant(pg.HTML, &distiller.Options{OriginalURL: page, PaginationAlgo: algo}, idx/5)
	if !c.usable(cr) {
		return
	}
	pi := cr.Res.PaginationInfo
	gotNext, gotPrev := "", ""
	if pi.NextPage != "" {
		gotNext = canonStr(pi.NextPage)
	}
	if pi.PrevPage != "" {
		gotPrev = canonStr(pi.PrevPage)
	}
	fail := func(side, got, want string) {
		w := wit()
		w["got_next"], w["got_prev"], w["want_next"], w["want_prev"] = pi.NextPage, pi.PrevPage, pg.WantNext, pg.WantPrev
		shape := "wrong"
		if got == "" {
			shape = "missing"
		} else if want == "" {
			shape = "spurious"
		}
		c.Violation(fmt.Sprintf("%s-%s:algo%d:%s:%s:slash=%v", shape, side, algo, sp.Fam, sp.Form, sp.Slash),
			fmt.Sprintf("pager N=%d k=%d family=%s form=%s slash=%v (algorithm %d): %sPage is %q, expected %q", sp.N, sp.K, sp.Fam, sp.Form, sp.Slash, algo, side, got, want), w)
	}
	if !sp.PrevNext {
		c.Inc("pagenumber_pagers")
		if gotNext != pg.WantNext {
			fail("Next", gotNext, pg.WantNext)
			return
		}
		if gotPrev != pg.WantPrev {
			fail("Prev", gotPrev, pg.WantPrev)
			return
		}
		if pg.WantNext != "" {
			c.Inc("next_links_confirmed")
		}
		if pg.WantPrev != "" {
			c.Inc("prev_links_confirmed")
		}
	} else {
		c.Inc("prevnext_pagers")
		if pg.HasNext {
			if gotNext != pg.WantNext {
				fail("Next", gotNext, pg.WantNext)
				return
			}
			c.Inc("next_links_confirmed")
		}
		if pg.HasPrev {
			if gotPrev != pg.WantPrev {
				fail("Prev", gotPrev, pg.WantPrev)
				return
			}
			c.Inc("prev_links_confirmed")
		}
	}
	c.Sig(pg.Desc)
	c.Sample(func() any { return wit() })
}
