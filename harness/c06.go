package main

import (
	"fmt"
	nurl "net/url"
	"regexp"

	distiller "github.com/markusmobius/go-domdistiller"
	"golang.org/x/net/html"
)

// C06 — with a page URL every link and media URL in the output is absolute.
// References are built from components by the generator, each carrying a
// unique id (u<N>z), so the expected output value is known by construction.

var rxRefID = regexp.MustCompile(`u\d+z`)

var c06SharedURL = &nurl.URL{}

var c06Pages = []string{
	"http://example.com/dir/sub/page.html",
	"http://example.com/dir/sub/",
	"http://example.com/dir/sub/page.html?x=1&y=2",
	"http://example.com/dir/sub/page.html#frag",
	"https://www.example.com/a/b/c/d.php?id=7#top",
}

func init() {
	register(&Prop{
		ID:   "C06",
		Rule: "G-article pages in which every URL-carrying attribute (a[href] in paragraphs, headings, list items, quotes, captions, table cells, link clusters; img src/srcset, lazy data-src, picture source srcset, figure images incl. noscript-hoisted ones, video src/poster, source/track src) is a reference of a random form {path-relative, ./, ../, root-relative, scheme-relative, query-only, absolute, fragment-only, data:, javascript:, unparseable} with a unique id; 5 page URLs (file-style, directory-style with trailing slash, with query, with fragment, https with both). Each URL found in Result.Node (outside placeholders) and in ContentImages is matched by id with the value expected by construction. Non-trivial = a checked URL; distinct = distinct (form, carrier attribute, output path, page-URL kind).",
		Assumptions: []string{
			"expected values come from an independent RFC 3986 section 5.2 resolution written for exactly the generated forms",
			"srcset values are split the way a browser does (a URL may contain commas)",
		},
		N: func(tier string) int {
			if tier == "quick" {
				return 20000
			}
			return 200000
		},
		Floors: func(tier string) map[string]int64 {
			return map[string]int64{"urls_checked": 20000, "content_images_checked": 2000, "where_text": 3000, "where_table": 300, "where_caption": 200, "where_video": 300}
		},
		Run: runC06,
	})
}

func runC06(c *Ctx, idx int) {
	prof := fullProfile()
	prof.Hidden, prof.InlineAttrs = false, false
	prof.RelURLs = true
	prof.MediaInText = true
	pk := c.RNG(idx, 9).Intn(len(c06Pages)) // drawn, not derived from idx: idx mod 16 decides the worker
	prof.PageURL = c06Pages[pk]
	opts := &distiller.Options{OriginalURL: mustURL(prof.PageURL), SkipPagination: idx%3 != 0, PaginationAlgo: distiller.PaginationAlgo(idx % 2)}
	if idx%5 == 1 {
		// a caller that keeps one url.URL value and overwrites it for every page
		*c06SharedURL = *mustURL(prof.PageURL)
		opts.OriginalURL = c06SharedURL
		c.Inc("cases_with_reused_url_object")
	}
	ar, ok := c.runArticle(idx, prof, opts)
	if !ok {
		return
	}
	// every third case: the caller reuses the same Options / *url.URL for a
	// second call on the same page; its URLs are checked instead
	if idx%3 == 0 {
		var cr callResult
		if ar.Mode == "reader" {
			cr = c.applyReader(ar.Src, opts)
		} else {
			cr = c.apply(parseHTML(ar.Src), opts)
		}
		if !c.usable(cr) {
			return
		}
		ar.Res = cr.Res
		ar.Mode += "+second-call-same-options"
		c.Inc("second_calls_checked")
	}
	L := ar.G.L
	bad := false
	checkVal := func(val, elem, attrName, path string) {
		if bad {
			return
		}
		id := rxRefID.FindString(val)
		ri := L.Refs[id]
		if id == "" || ri == nil {
			c.Violation("unknown-url:"+elem+"["+attrName+"]", fmt.Sprintf("<%s %s=%q> in the output is not derived from any reference of the page", elem, attrName, val), ar.witness(map[string]any{"value": val}))
			bad = true
			return
		}
		c.Inc("urls_checked")
		c.Inc("where_" + ri.Where)
		c.Inc("form_" + ri.Form)
		c.Sig(fmt.Sprintf("%s|%s|%s|%s|%d", ri.Form, elem, attrName, path, pk))
		if val != ri.Expect {
			kind := "wrong"
			if val == ri.Raw {
				kind = "unresolved"
			}
			c.Violation(fmt.Sprintf("%s:%s:%s[%s]@%s", kind, ri.Form, elem, attrName, path),
				fmt.Sprintf("<%s %s> (%s reference %q, page %s): output has %q, expected %q", elem, attrName, ri.Form, ri.Raw, prof.PageURL, val, ri.Expect),
				ar.witness(map[string]any{"raw": ri.Raw, "got": val, "expected": ri.Expect, "form": ri.Form}))
			bad = true
		}
	}
	walk(ar.Res.Node, func(n *html.Node) bool {
		if bad {
			return false
		}
		if n.Type != html.ElementNode {
			return true
		}
		if isPlaceholder(n) {
			return false
		}
		path := pathKind(n)
		if (n.Data == "a" || n.Data == "area") && hasAttr(n, "href") {
			checkVal(attr(n, "href"), n.Data, "href", path)
		}
		switch n.Data {
		case "img", "source", "track", "video":
			if v := attr(n, "src"); v != "" {
				checkVal(v, n.Data, "src", path)
			}
		}
		if n.Data == "video" {
			if v := attr(n, "poster"); v != "" {
				checkVal(v, "video", "poster", path)
			}
		}
		if v := attr(n, "srcset"); v != "" {
			for _, cand := range parseSrcset(v) {
				checkVal(cand, n.Data, "srcset", path)
			}
		}
		return true
	})
	if bad {
		return
	}
	for _, u := range ar.Res.ContentImages {
		id := rxRefID.FindString(u)
		ri := L.Refs[id]
		if ri == nil {
			c.Violation("unknown-url:ContentImages", fmt.Sprintf("ContentImages entry %q is not derived from any reference of the page", u), ar.witness(map[string]any{"value": u}))
			return
		}
		c.Inc("content_images_checked")
		if u != ri.Expect {
			c.Violation("wrong:"+ri.Form+":ContentImages", fmt.Sprintf("ContentImages entry for %s reference %q is %q, expected %q", ri.Form, ri.Raw, u, ri.Expect),
				ar.witness(map[string]any{"raw": ri.Raw, "got": u, "expected": ri.Expect}))
			return
		}
	}
	c.Sample(func() any {
		return map[string]any{"case": idx, "page_url": prof.PageURL, "html": trunc(ar.Src, 1500)}
	})
}
