package main

import (
	"fmt"
	"regexp"
	"strings"

	distiller "github.com/markusmobius/go-domdistiller"
	"github.com/markusmobius/go-domdistiller/data"
)

// C14 — metadata follows the documented precedence and honours opt-out.

func init() {
	register(&Prop{
		ID:   "C14",
		Rule: "even cases (oracle A, metamorphic): random G-markup pages made of three separable fragment sets — OpenGraph meta tags (presence of each of the 4 required properties, og:type article/profile/website, optional fields, several images, prefix declarations), schema.org microdata (Article/NewsArticle/BlogPosting/TechArticle/unsupported item, nested Person/Organization, ImageObject items, associatedMedia, rel=author, up to 2 items), IE Reading View (meta title/copyright/displaydate, byline-name, dateline, publisher attribute, captioned/sized images) — plus optional IE_RM_OFF, shuffled; the page runs four times (all sources, OG only, schema.org only, IE only) and MarkupInfo(all) must equal the field-wise first non-empty of (og, so, ie), the first non-empty image list, and the article record of the first source that has one; empty on opt-out. Odd cases (oracle B, by construction): canonical pages enumerating 16 required-property subsets x 8 source-presence subsets x 4 og:type values x 3 opt-out states, with every value a unique token so that the expected MarkupInfo is known without running the parsers in isolation. Non-trivial = a page with at least one source; distinct = distinct (source presence, required-property mask, og:type, opt-out, article branch).",
		Assumptions: []string{
			"oracle A trusts each source parser in isolation; oracle B trusts the harness' model of what each well-formed source provides",
			"OpenGraph supplies an article record only if one of its article fields is non-empty; schema.org whenever it has an article item; IE Reading View always",
		},
		N: func(tier string) int {
			if tier == "quick" {
				return 30720
			}
			return 200000
		},
		Floors: func(tier string) map[string]int64 {
			return map[string]int64{"oracleA_pages": 2000, "oracleB_pages": 2000, "article_from_og": 200, "article_from_so": 300, "article_from_ie": 300, "optout_pages": 200, "og_disqualified_pages": 300}
		},
		Run: runC14,
	})
}

func normMarkup(m data.MarkupInfo) string { return markupCanon(m) }

func (c *Ctx) markupOf(src string) (data.MarkupInfo, bool) {
	cr := c.applyVariant(src, &distiller.Options{SkipPagination: true}, c.curIdx/2)
	if !c.usable(cr) {
		return data.MarkupInfo{}, false
	}
	return cr.Res.MarkupInfo, true
}

func runC14(c *Ctx, idx int) {
	r := c.RNG(idx, 1)
	if idx%2 == 1 {
		d := genCanonMarkupDoc(r, idx/2)
		c.SetInput(func() any { return map[string]any{"html": d.All} })
		got, ok := c.markupOf(d.All)
		if !ok {
			return
		}
		c.Inc("oracleB_pages")
		if strings.ToLower(d.OptOut) == "true" {
			c.Inc("optout_pages")
		}
		if strings.Contains(d.Sig, "og") && !strings.Contains(d.Sig, "og15") {
			c.Inc("og_disqualified_pages")
		}
		if d.ArticleWild {
			d.Want.Article = got.Article
		}
		if field := markupDisagrees(got, d.Want); field != "" {
			c.Violation("by-construction:"+field, fmt.Sprintf("canonical page (%s): MarkupInfo.%s does not come from the source expected by construction\n got  %s\n want %s", d.Sig, field, normMarkup(got), normMarkup(d.Want)),
				map[string]any{"html": d.All, "got": got, "want": d.Want, "spec": d.Sig})
			return
		}
		c.Sig("B|" + d.Sig)
		return
	}
	d := genMarkupDoc(r)
	c.SetInput(func() any { return map[string]any{"html": d.All} })
	all, ok1 := c.markupOf(d.All)
	og, ok2 := c.markupOf(d.OG)
	so, ok3 := c.markupOf(d.SO)
	ie, ok4 := c.markupOf(d.IE)
	if !(ok1 && ok2 && ok3 && ok4) {
		return
	}
	c.Inc("oracleA_pages")
	var want data.MarkupInfo
	branch := "optout"
	if strings.ToLower(d.OptOut) == "true" {
		c.Inc("optout_pages")
	} else {
		first := func(xs ...string) string {
			for _, x := range xs {
				if x != "" {
					return x
				}
			}
			return ""
		}
		want.Title = first(og.Title, so.Title, ie.Title)
		want.Type = first(og.Type, so.Type, ie.Type)
		want.URL = first(og.URL, so.URL, ie.URL)
		want.Description = first(og.Description, so.Description, ie.Description)
		want.Publisher = first(og.Publisher, so.Publisher, ie.Publisher)
		want.Copyright = first(og.Copyright, so.Copyright, ie.Copyright)
		want.Author = first(og.Author, so.Author, ie.Author)
		switch {
		case len(og.Images) > 0:
			want.Images = og.Images
		case len(so.Images) > 0:
			want.Images = so.Images
		default:
			want.Images = ie.Images
		}
		zero := func(a data.MarkupArticle) bool {
			return a.PublishedTime == "" && a.ModifiedTime == "" && a.ExpirationTime == "" && a.Section == "" && len(a.Authors) == 0
		}
		switch {
		case !zero(og.Article):
			want.Article = og.Article
			branch = "og"
		case so.Type == "Article":
			want.Article = so.Article
			branch = "so"
		default:
			want.Article = ie.Article
			branch = "ie"
		}
		c.Inc("article_from_" + branch)
		if og.Title != "" {
			c.Inc("og_valid_pages")
		} else if strings.Contains(d.Sig, "og,") {
			c.Inc("og_disqualified_pages")
		}
	}
	if normMarkup(all) != normMarkup(want) {
		field := firstMarkupDiff(all, want)
		c.Violation("precedence:"+field, fmt.Sprintf("MarkupInfo.%s of the page with all sources differs from the precedence-combination of the single-source pages (%s)\n all  %s\n want %s\n og   %s\n so   %s\n ie   %s", field, d.Sig, normMarkup(all), normMarkup(want), normMarkup(og), normMarkup(so), normMarkup(ie)),
			map[string]any{"html": d.All, "all": all, "want": want, "og": og, "so": so, "ie": ie})
		return
	}
	if d.Sig != "" {
		c.Sig("A|" + d.Sig + "|" + branch)
	}
	c.Sample(func() any { return map[string]any{"case": idx, "html": trunc(d.All, 1500), "markup": all} })
}

var rxValueTok = regexp.MustCompile(`[A-Za-z]*\d+[A-Za-z]*`)

// agrees: a field is empty iff the expected one is, and otherwise carries
// every unique token of the expected value (so the *source* is checked, not
// the exact formatting a parser gives its value).
func fieldAgrees(got, want string) bool {
	if want == "*" {
		return true // not specified for this input
	}
	if want == "" || got == "" {
		return want == got
	}
	for _, t := range rxValueTok.FindAllString(want, -1) {
		if !strings.Contains(got, t) {
			return false
		}
	}
	return true
}

func markupDisagrees(got, want data.MarkupInfo) string {
	type f struct{ name, g, w string }
	for _, x := range []f{{"Title", got.Title, want.Title}, {"Type", got.Type, want.Type}, {"URL", got.URL, want.URL}, {"Description", got.Description, want.Description},
		{"Publisher", got.Publisher, want.Publisher}, {"Copyright", got.Copyright, want.Copyright}, {"Author", got.Author, want.Author},
		{"Article.PublishedTime", got.Article.PublishedTime, want.Article.PublishedTime}, {"Article.ModifiedTime", got.Article.ModifiedTime, want.Article.ModifiedTime},
		{"Article.ExpirationTime", got.Article.ExpirationTime, want.Article.ExpirationTime}, {"Article.Section", got.Article.Section, want.Article.Section},
		{"Article.Authors", strings.Join(got.Article.Authors, " "), strings.Join(want.Article.Authors, " ")}} {
		if !fieldAgrees(x.g, x.w) {
			return x.name
		}
	}
	if len(got.Images) != len(want.Images) {
		return "Images"
	}
	for i := range want.Images {
		if !fieldAgrees(got.Images[i].URL, want.Images[i].URL) || !fieldAgrees(got.Images[i].Caption, want.Images[i].Caption) {
			return "Images"
		}
	}
	return ""
}

func firstMarkupDiff(a, b data.MarkupInfo) string {
	switch {
	case a.Title != b.Title:
		return "Title"
	case a.Type != b.Type:
		return "Type"
	case a.URL != b.URL:
		return "URL"
	case a.Description != b.Description:
		return "Description"
	case a.Publisher != b.Publisher:
		return "Publisher"
	case a.Copyright != b.Copyright:
		return "Copyright"
	case a.Author != b.Author:
		return "Author"
	case fmt.Sprint(a.Images) != fmt.Sprint(b.Images):
		return "Images"
	default:
		return "Article"
	}
}
