package main

import (
	"fmt"
	"regexp"
	"strings"

	"github.com/go-shiori/dom"
	distiller "github.com/markusmobius/go-domdistiller"
	"golang.org/x/net/html"
)

// C20 — unlikely-content pruning applies only if enough content remains.

var c20Markers = []string{"sidebar", "footer", "menu", "banner", "breadcrumbs", "related", "sponsor", "popup", "pager", "site-header", "rss-box", "shoutbox", "skyscraper", "supplemental", "disqus_thread", "extra-stuff", "legends", "gdpr", "pagination", "cover-wrap", "ad-break", "agegate", "yom-remote", "combx", "x-ad-y", "SideBar", "FOOTER"}
var rxRoleAttr = regexp.MustCompile(` role="[^"]*"`)

var c20Roles = []string{"menu", "menubar", "complementary", "navigation", "alert", "alertdialog", "dialog"}

type c20Block struct {
	marked bool
	html   func(n int) string // for unmarked paragraphs: n words
	words  int
}

type c20Page struct {
	parts  []string // fixed HTML parts; "%LAST%" placeholder for the resizable paragraph
	nextID int
}

func init() {
	register(&Prop{
		ID:   "C20",
		Rule: "metamorphic triples built on one parsed tree: D = page with subtrees (div/section/ul, with paragraphs, list items, images) marked unlikely by class / id / ARIA role from the stated vocabulary (only markers that feed nothing but the unlikely test), placed at top / middle / bottom among content paragraphs; D_del = the same tree with those subtrees removed; D_neu = the same tree with the markers renamed to neutral values (class/id -> zone, role -> region). With W = Apply(D_del).WordCount: W >= 500 requires Apply(D) = Apply(D_del), W < 500 requires Apply(D) = Apply(D_neu), on Title, Text, serialised Node, WordCount, ContentImages. The amount of remaining content is steered by feedback (the last paragraph is resized until W hits each of 497..503 exactly) and otherwise drawn from [250,750]. Non-trivial = a triple where Apply(D_del) differs from Apply(D_neu) (otherwise either answer passes); distinct = distinct (W, marker kinds, placement).",
		Assumptions: []string{
			"not generated: marked subtrees containing <h1>, <title> or metadata (the title and MarkupInfo are taken from the whole page, a stage of its own), CJK text",
			"markers that other rules read as well (comment, author, sharing, social, header tags) are not used",
		},
		N: func(tier string) int {
			if tier == "quick" {
				return 8000
			}
			return 60000
		},
		Floors: func(tier string) map[string]int64 {
			return map[string]int64{"triples_high(W>=500)": 300, "triples_low(W<500)": 300, "nontrivial_triples": 500, "W=499": 30, "W=500": 30, "W=501": 10}
		},
		Run: runC20,
	})
}

func runC20(c *Ctx, idx int) {
	r := c.RNG(idx, 1)
	tc := &tokCounter{}
	var parts []string
	nimg := 0
	img := func() string { nimg++; return fmt.Sprintf(`<img src="/pic/%d.png" width="600" height="400">`, nimg) }
	para := func(n int) string { return "<p>" + tc.toks(n) + "</p>" }
	var markerKinds []string
	marked := func() string {
		tag := []string{"div", "section", "ul"}[r.Intn(3)]
		a := ""
		switch r.Intn(3) {
		case 0:
			a = fmt.Sprintf(`class="%s" data-mark="1"`, c20Markers[r.Intn(len(c20Markers))])
			markerKinds = append(markerKinds, "class")
		case 1:
			a = fmt.Sprintf(`id="%s" data-mark="1"`, c20Markers[r.Intn(len(c20Markers))])
			markerKinds = append(markerKinds, "id")
		default:
			role := c20Roles[r.Intn(len(c20Roles))]
			switch r.Intn(8) { // legal spellings of a role value: letter case, white space, a fallback role after it
			case 0:
				role = strings.ToUpper(role[:1]) + role[1:]
			case 1:
				role = strings.ToUpper(role)
			case 2:
				role = " " + role
			case 3:
				role = role + " "
			case 4:
				role = role + " region"
			}
			a = fmt.Sprintf(`role="%s" data-mark="1"`, role)
			markerKinds = append(markerKinds, "role")
		}
		var sb strings.Builder
		sb.WriteString("<" + tag + " " + a + ">")
		wrap := func(x string) string {
			if tag == "ul" {
				return "<li>" + x + "</li>"
			}
			return x
		}
		switch r.Intn(6) {
		case 0: // only media: adds no words at all
			sb.WriteString(wrap(img()))
		case 1: // a data table: its cells are not counted as words of text blocks
			sb.WriteString(wrap(`<table role="grid"><tr><th>` + tc.tok() + `</th><th>` + tc.tok() + `</th></tr><tr><td>` + tc.tok() + `</td><td>` + tc.tok() + `</td></tr></table>`))
		case 2: // an embed
			nimg++
			sb.WriteString(wrap(fmt.Sprintf(`<iframe src="https://www.youtube.com/embed/vid%d"></iframe>`, nimg)))
		default:
			for k := 0; k < 1+r.Intn(4); k++ {
				if tag == "ul" {
					sb.WriteString("<li>" + tc.toks(5+r.Intn(60)) + "</li>")
				} else {
					sb.WriteString("<p>" + tc.toks(5+r.Intn(80)) + "</p>")
					if r.Intn(6) == 0 {
						sb.WriteString(img())
					}
				}
			}
		}
		sb.WriteString("</" + tag + ">")
		return sb.String()
	}
	// decoy: an element that carries a marker string but is exempt from the
	// unlikely test (an anchor, or anything inside a table); it is the same in
	// all three variants.
	decoy := func() string {
		m := c20Markers[r.Intn(len(c20Markers))]
		at := []string{"class", "id"}[r.Intn(2)]
		switch r.Intn(3) {
		case 0:
			return `<p>` + tc.toks(12+r.Intn(20)) + ` <a ` + at + `="` + m + `" href="/x/` + tc.tok() + `">` + tc.toks(2) + `</a> ` + tc.toks(10) + `</p>`
		case 1:
			return `<table role="presentation"><tr><td ` + at + `="` + m + `"><p>` + tc.toks(30+r.Intn(30)) + `</p></td></tr></table>`
		default:
			return `<table summary="s"><tr><th>` + tc.tok() + `</th><th ` + at + `="` + m + `">` + tc.tok() + `</th></tr><tr><td>` + tc.tok() + `</td><td><span ` + at + `="` + m + `">` + tc.tok() + `</span></td></tr></table>`
		}
	}
	// content elements that are emitted as a whole (figure, data table) with a marked subtree inside
	inner := func() string {
		m := c20Markers[r.Intn(len(c20Markers))]
		role := c20Roles[r.Intn(len(c20Roles))]
		switch r.Intn(6) {
		case 4: // a marked box inside a tweet quote (the quote is moved into its placeholder as a whole)
			markerKinds = append(markerKinds, "in-tweet")
			nimg++
			return `<blockquote class="twitter-tweet"><p>` + tc.toks(4) + `</p><div class="` + m + `" data-mark="1">` + tc.toks(3) + `</div>&mdash; someone <a href="https://twitter.com/user/status/9` + fmt.Sprint(nimg) + `">date</a></blockquote>`
		case 5: // a marked span with stray text among the children of a picture
			markerKinds = append(markerKinds, "in-picture")
			return `<picture><span id="` + m + `" data-mark="1">` + tc.toks(2) + `</span><source srcset="/pic/p` + fmt.Sprint(nimg) + `.webp 1x">` + img() + `</picture>`
		case 0: // the caption of a figure is marked
			markerKinds = append(markerKinds, "in-figure")
			at := []string{`class="` + m + `"`, `id="` + m + `"`, `role="` + role + `"`}[r.Intn(3)]
			return `<figure>` + img() + `<figcaption ` + at + ` data-mark="1">` + tc.toks(3+r.Intn(8)) + `</figcaption></figure>`
		case 1: // a marked box with another picture inside a figure, before the real one
			markerKinds = append(markerKinds, "in-figure")
			return `<figure><div class="` + m + `" data-mark="1">` + img() + `</div>` + img() + `<figcaption>` + tc.toks(3+r.Intn(8)) + `</figcaption></figure>`
		default: // a role-marked box in a cell of a data table (class / id markers are exempt inside tables, roles are not)
			markerKinds = append(markerKinds, "in-table")
			return `<table summary="s"><tr><th>` + tc.tok() + `</th><th>` + tc.tok() + `</th></tr><tr><td>` + tc.tok() + ` <div role="` + role + `" data-mark="1">` + tc.toks(2+r.Intn(6)) + `</div></td><td>` + tc.tok() + `</td></tr><tr><td>` + tc.tok() + `</td><td>` + tc.tok() + `</td></tr></table>`
		}
	}
	// ordinary elements whose treatment depends on what is below them (a byline by
	// the length of its text, a wrapper by having content, a scripted link by having
	// a single text child) with a marked subtree below them
	around := func() string {
		m := c20Markers[r.Intn(len(c20Markers))]
		at := []string{`class="` + m + `"`, `id="` + m + `"`, `role="` + c20Roles[r.Intn(len(c20Roles))] + `"`}[r.Intn(3)]
		switch r.Intn(3) {
		case 0: // an author line with a "follow me" box inside
			markerKinds = append(markerKinds, "in-byline")
			return `<div class="byline">Written by ` + tc.toks(2) + `<div ` + at + ` data-mark="1">` + tc.toks(25+r.Intn(10)) + `</div></div>`
		case 1: // a wrapper that holds nothing but the marked subtree, in the middle of a sentence
			markerKinds = append(markerKinds, "in-wrapper")
			w := []string{"div", "section", "header"}[r.Intn(3)]
			return `<div>` + tc.toks(12) + ` <` + w + `><div ` + at + ` data-mark="1">` + tc.toks(4+r.Intn(5)) + `</div></` + w + `> ` + tc.toks(14) + `</div>`
		default: // a scripted link whose tooltip is marked
			markerKinds = append(markerKinds, "in-jslink")
			return `<p>` + tc.toks(10) + ` <a href="javascript:void(0)">` + tc.toks(3) + `<span ` + at + ` data-mark="1">` + tc.toks(2) + `</span></a> ` + tc.toks(12) + `</p>`
		}
	}
	// an inline icon whose SVG carries a raw text element (style sheet or script of the
	// sprite): wordless, skipped by the converter, the same in all three variants
	icon := func() string {
		raw := []string{"<style>.i{fill:#123}</style>", "<script>var i=1</script>", "<style>.a{}</style><script>var j=2</script>"}[r.Intn(3)]
		return `<svg width="16" height="16" viewBox="0 0 16 16">` + raw + `<path d="M0 0h16v16H0z"></path></svg>`
	}
	// target amount of remaining content
	target := 250 + r.Intn(501)
	if idx%2 == 0 {
		target = 497 + (idx/2)%7
	}
	words := 0
	placement := ""
	if r.Intn(4) == 0 {
		parts = append(parts, decoy())
		placement += "decoy,"
	}
	if r.Intn(3) == 0 {
		parts = append(parts, marked())
		placement += "top,"
	}
	for words < target-60 {
		if r.Intn(4) == 0 {
			parts = append(parts, marked())
			placement += "mid,"
		} else if r.Intn(12) == 0 {
			parts = append(parts, decoy())
			placement += "decoy,"
		} else if r.Intn(10) == 0 && words > 0 {
			parts = append(parts, inner())
			placement += "inner,"
		} else if r.Intn(12) == 0 && words > 0 {
			parts = append(parts, around())
			placement += "around,"
		} else if r.Intn(14) == 0 {
			parts = append(parts, icon())
			placement += "icon,"
		} else {
			n := 10 + r.Intn(90)
			if words+n > target-40 {
				n = target - 40 - words
				if n < 10 {
					break
				}
			}
			words += n
			parts = append(parts, para(n))
			if r.Intn(8) == 0 {
				parts = append(parts, img())
			}
		}
	}
	joiner := []string{"\n", "", "\n  "}[r.Intn(3)] // pretty-printed or minified source
	lastIdx := len(parts)
	parts = append(parts, "") // resizable paragraph
	if r.Intn(3) == 0 {
		parts = append(parts, marked())
		placement += "bottom,"
	}
	if len(markerKinds) == 0 {
		parts = append(parts, marked())
		placement += "bottom,"
	}
	lastLen := target - words
	if lastLen < 5 {
		lastLen = 5
	}
	build := func(lastLen int) string {
		lt := &tokCounter{n: 900000}
		parts[lastIdx] = "<p>" + lt.toks(lastLen) + "</p>"
		return "<html><head><title>A perfectly ordinary headline here</title></head><body><div>" + strings.Join(parts, joiner) + "</div></body></html>"
	}
	opts := &distiller.Options{OriginalURL: mustURL("http://example.com/dir/page.html"), SkipPagination: true}
	mkDel := func(D *html.Node) *html.Node {
		d := dom.Clone(D, true)
		for _, n := range dom.QuerySelectorAll(d, "[data-mark]") {
			n.Parent.RemoveChild(n)
		}
		return d
	}
	var src string
	var D, Ddel *html.Node
	W := -1
	// feedback: steer W = Apply(D_del).WordCount to the target
	for it := 0; it < 5; it++ {
		src = build(lastLen)
		D = parseHTML(src)
		Ddel = mkDel(D)
		cr := c.apply(Ddel, opts)
		if !c.usable(cr) {
			return
		}
		W = cr.Res.WordCount
		if W == target {
			break
		}
		nl := lastLen + (target - W)
		if nl < 1 || nl == lastLen {
			break
		}
		lastLen = nl
	}
	c.SetInput(func() any { return map[string]any{"html": src} })
	Dneu := dom.Clone(D, true)
	for _, n := range dom.QuerySelectorAll(Dneu, "[data-mark]") {
		for i := range n.Attr {
			switch n.Attr[i].Key {
			case "class", "id":
				n.Attr[i].Val = "zone"
			case "role":
				n.Attr[i].Val = "region"
			}
		}
	}
	rd := c.apply(Ddel, opts)
	rn := c.apply(Dneu, opts)
	rr := c.apply(D, opts)
	if !c.usable(rd) || !c.usable(rn) || !c.usable(rr) {
		return
	}
	W = rd.Res.WordCount
	vd, vn, v := viewOf(rd.Res), viewOf(rn.Res), viewOf(rr.Res)
	vd.Markup, vn.Markup, v.Markup = "", "", ""
	// the role attribute is kept in the distilled HTML of tables; its value is what the
	// neutral variant renames, so it is not part of the comparison
	vd.HTML, vn.HTML, v.HTML = rxRoleAttr.ReplaceAllString(vd.HTML, ` role="*"`), rxRoleAttr.ReplaceAllString(vn.HTML, ` role="*"`), rxRoleAttr.ReplaceAllString(v.HTML, ` role="*"`)
	c.Inc(fmt.Sprintf("W=%d", W))
	branch := "low"
	want := vn
	if W >= 500 {
		branch = "high"
		want = vd
		c.Inc("triples_high(W>=500)")
	} else {
		c.Inc("triples_low(W<500)")
	}
	nontrivial := diffViews(vd, vn, false) != ""
	if nontrivial {
		c.Inc("nontrivial_triples")
	}
	if d := diffViews(want, v, false); d != "" {
		other := "matches neither variant"
		if branch == "high" && diffViews(vn, v, false) == "" {
			other = "it equals the page with neutral markers instead (markers ignored although enough content remains)"
		}
		if branch == "low" && diffViews(vd, v, false) == "" {
			other = "it equals the page with the marked subtrees deleted instead (pruned although too little content remains)"
		}
		c.Violation("pruning:"+branch, fmt.Sprintf("remaining content W=%d words (%s branch): the result of the page differs from the expected variant in %s; %s. WordCounts: page %d, deleted %d, neutral %d", W, branch, d, other, v.WordCount, vd.WordCount, vn.WordCount),
			map[string]any{"html": src, "W": W, "branch": branch, "fields": d, "wordcount_page": v.WordCount, "wordcount_deleted": vd.WordCount, "wordcount_neutral": vn.WordCount})
		return
	}
	if nontrivial {
		c.Sig(fmt.Sprintf("%d|%s|%s", W, strings.Join(markerKinds, ""), placement))
	}
	c.Sample(func() any {
		return map[string]any{"case": idx, "W": W, "branch": branch, "nontrivial": nontrivial, "html": trunc(src, 1500)}
	})
}
