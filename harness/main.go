package main

import (
	"encoding/json"
	"flag"
	"fmt"
	"os"
	"sort"
	"strconv"
)

func main() {
	var (
		worker  = flag.Bool("worker", false, "internal: run as worker")
		propID  = flag.String("prop", "", "property id (C01..C20)")
		tier    = flag.String("tier", "quick", "quick|thorough")
		seedS   = flag.String("seed", "", "seed (default $VERIF_SEED or 1)")
		shard   = flag.Int("shard", 0, "internal")
		nshards = flag.Int("nshards", 1, "internal")
		from    = flag.Int("from", 0, "internal")
		only    = flag.Int("only", -1, "run only this case index")
		scratch = flag.String("scratch", "", "internal")
		replay  = flag.String("replay", "", "replay a witness file")
		verif   = flag.String("verif", "/verif", "verification directory")
		out     = flag.String("out", "", "output directory for evidence/replay/scratch (default: the verification directory)")
		list    = flag.Bool("list", false, "list properties")
	)
	flag.Parse()

	if *out == "" {
		*out = *verif
	}
	if *list {
		ids := []string{}
		for id := range props {
			ids = append(ids, id)
		}
		sort.Strings(ids)
		for _, id := range ids {
			fmt.Printf("%s quick=%d thorough=%d\n", id, props[id].N("quick"), props[id].N("thorough"))
		}
		return
	}

	seed := uint64(1)
	if s := os.Getenv("VERIF_SEED"); s != "" {
		if v, err := strconv.ParseUint(s, 10, 64); err == nil {
			seed = v
		}
	}
	if *seedS != "" {
		if v, err := strconv.ParseUint(*seedS, 10, 64); err == nil {
			seed = v
		}
	}

	if *replay != "" {
		b, err := os.ReadFile(*replay)
		if err != nil {
			fmt.Println("cannot read replay file:", err)
			os.Exit(2)
		}
		var w struct {
			Property string `json:"property"`
			Tier     string `json:"tier"`
			Seed     uint64 `json:"seed"`
			Case     int    `json:"case"`
		}
		if err := json.Unmarshal(b, &w); err != nil {
			fmt.Println("bad replay file:", err)
			os.Exit(2)
		}
		p := props[w.Property]
		if p == nil {
			fmt.Println("unknown property in replay file:", w.Property)
			os.Exit(2)
		}
		os.Exit(parentMain(p, w.Tier, w.Seed, *verif, *out, w.Case))
	}

	p := props[*propID]
	if p == nil {
		fmt.Println("unknown property:", *propID)
		os.Exit(2)
	}
	if *tier != "quick" && *tier != "thorough" {
		fmt.Println("tier must be quick or thorough")
		os.Exit(2)
	}
	if *worker {
		workerMain(p, *tier, seed, *shard, *nshards, *from, *only, *scratch)
		return
	}
	os.Exit(parentMain(p, *tier, seed, *verif, *out, *only))
}
