package main

import (
	"fmt"
	"strings"

	distiller "github.com/markusmobius/go-domdistiller"
)

// C13 — options do only what they say: the full option grid per document.

func init() {
	register(&Prop{
		ID:   "C13",
		Rule: "per document (G-article page with tables, embeds, figures and an appended hostile or conventional pager, so that visibility/extraction/pagination/timing logging and both finders have work) the full grid LogFlags 0..31 (all five bits incl. the unused bit 0) x {PrevNext, PageNumber} x SkipPagination x {URL nil, URL given} = 256 calls on the same parsed tree. Oracle: within one URL value all results are equal in Title, Text, HTML, WordCount, ContentImages, MarkupInfo, URL; PaginationInfo is equal across log flags for the same (algorithm, skip) and empty when skipped or when no URL is given; Result.URL = OriginalURL.String() or empty. Non-trivial = a document with non-empty output; distinct = distinct (block kinds, pagination outcome shape).",
		Assumptions: []string{
			"URL nil vs non-nil legitimately changes link absolutisation, so contents are compared within one URL value only",
			"log output goes to stderr of the worker and is discarded",
		},
		N: func(tier string) int {
			if tier == "quick" {
				return 256
			}
			return 3000
		},
		Floors: func(tier string) map[string]int64 {
			return map[string]int64{"grid_calls": 20000, "docs_with_pagination": 20, "docs_with_output": 60}
		},
		Run: runC13,
	})
}

func runC13(c *Ctx, idx int) {
	r := c.RNG(idx, 1)
	prof := fullProfile()
	prof.Skipped, prof.MediaInText = true, true
	prof.MaxBlocks = 10
	g := NewArtGen(r, prof)
	src := g.Doc()
	var pg *Pager
	if idx%3 == 0 {
		specs := c17Specs("quick")
		pg = conventionalPager(specs[r.Intn(len(specs))], r)
	} else if idx%8 == 7 {
		pg = genFolderPager(r)
	} else {
		pg = genPager(r, true)
	}
	i := strings.Index(pg.HTML, "<body>")
	src = strings.Replace(src, "</body>", pg.HTML[i+6:len(pg.HTML)-len("</body></html>")]+"</body>", 1)
	// content that the loggers print: very long image sources (signed CDN URLs, data: URIs)
	long := strings.Repeat("sig0123456789abcdef", 12+r.Intn(20))
	src = strings.Replace(src, "</body>", `<p>`+fillerWords(r, 40)+`</p><img src="/cdn/img.png?token=`+long+`" width="640" height="480"><p>`+fillerWords(r, 30)+`</p><img data-src="data:image/gif,`+long+`"><p>`+fillerWords(r, 30)+`</p></body>`, 1)
	if idx%2 == 0 {
		// link texts laid out over several lines, as long as the prev/next scorer accepts give or take a character
		// (what a logger prints on one line and what is scored are the same text)
		src = strings.Replace(src, "</body>", `<p><a href="/story/alpha/page/3">`+brLabel(r, "next")+`</a> <a href="/story/alpha/page/1">`+brLabel(r, "previous")+`</a></p></body>`, 1)
	}
	doc := parseHTML(src)
	pageStr := pg.PageURL
	if idx%4 == 1 {
		pageStr = []string{"http://example.com/story/alpha%20beta/caf%C3%A9/page%2F2?x=%41&y=a+b", "http://example.com/a%2Fb/%7Euser/page/2/", "HTTP://EXAMPLE.com:80/Story/../alpha/./page/2?#", "//example.com/stories/lake", "http://example.com"}[idx/4%5]
	}
	if idx%4 == 3 && !strings.Contains(pageStr, "#") {
		pageStr += "#chapter-4" // Result.URL is the address as supplied, fragment included, whatever the options
	}
	page := mustURL(pageStr)
	wit := func(extra map[string]any) map[string]any {
		w := map[string]any{"html": src, "page_url": pageStr}
		for k, v := range extra {
			w[k] = v
		}
		return w
	}
	c.SetInput(func() any { return wit(nil) })
	pagShape := ""
	for _, withURL := range []bool{false, true} {
		var base *resultView
		var baseOpts *distiller.Options
		pagBase := map[string]*resultView{}
		for algo := 0; algo < 2; algo++ {
			for _, skip := range []bool{false, true} {
				for flags := 0; flags < 32; flags++ {
					o := &distiller.Options{LogFlags: distiller.LogFlag(flags), PaginationAlgo: distiller.PaginationAlgo(algo), SkipPagination: skip}
					wantURL := ""
					if withURL {
						o.OriginalURL = page
						wantURL = page.String()
					}
					cr := c.apply(doc, o)
					if !c.usable(cr) {
						return
					}
					c.Inc("grid_calls")
					v := viewOf(cr.Res)
					if v.URL != wantURL {
						c.Violation("result-url", fmt.Sprintf("Result.URL=%q, expected %q", v.URL, wantURL), wit(map[string]any{"options": optsDesc(o)}))
						return
					}
					if (skip || !withURL) && (v.Next != "" || v.Prev != "") {
						c.Violation(fmt.Sprintf("pagination-not-empty:skip=%v:url=%v", skip, withURL), fmt.Sprintf("PaginationInfo is %q/%q although SkipPagination=%v and URL given=%v", v.Prev, v.Next, skip, withURL), wit(map[string]any{"options": optsDesc(o)}))
						return
					}
					if base == nil {
						vv := v
						base, baseOpts = &vv, o
					} else if d := diffViews(*base, v, false); d != "" {
						what := "pagination-options-change-content"
						if o.PaginationAlgo == baseOpts.PaginationAlgo && o.SkipPagination == baseOpts.SkipPagination {
							what = "logflags-change-content"
						}
						c.Violation(what+":"+d, fmt.Sprintf("options %v and %v (same document, same URL) give results that differ in %s", optsDesc(baseOpts), optsDesc(o), d),
							wit(map[string]any{"options_a": optsDesc(baseOpts), "options_b": optsDesc(o), "fields": d}))
						return
					}
					key := fmt.Sprintf("%d/%v", algo, skip)
					if pb, ok := pagBase[key]; !ok {
						vv := v
						pagBase[key] = &vv
					} else if pb.Next != v.Next || pb.Prev != v.Prev {
						c.Violation("logflags-change-pagination", fmt.Sprintf("LogFlags=%d changes PaginationInfo from %q/%q to %q/%q (algorithm %d)", flags, pb.Prev, pb.Next, v.Prev, v.Next, algo),
							wit(map[string]any{"options": optsDesc(o)}))
						return
					}
					if withURL && !skip && flags == 0 {
						pagShape += fmt.Sprintf("%d:%v%v;", algo, v.Prev != "", v.Next != "")
						if v.Prev != "" || v.Next != "" {
							c.Inc("grid_cells_with_pagination")
						}
					}
				}
			}
		}
		if withURL && base != nil && base.Text != "" {
			c.Inc("docs_with_output")
		}
	}
	if strings.Contains(pagShape, "true") {
		c.Inc("docs_with_pagination")
	}
	c.Sig(kindSig(g.L.Kinds) + "|" + pagShape)
	c.Sample(func() any {
		return map[string]any{"case": idx, "page_url": pageStr, "html": trunc(src, 1200), "pagination_shape": pagShape}
	})
}
