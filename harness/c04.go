package main

import (
	"fmt"
	"strings"

	"golang.org/x/net/html"
)

// C04 — non-rendered and non-reading content never leaks.
// C05 uses the same documents (with attribute noise) and a different observer.

var c04Placements = []string{"top", "between", "in-p", "in-li", "layout-td", "data-td", "figcaption-links", "figcaption-plain", "figure-body", "tweet"}

func c04Carriers() []string {
	var out []string
	for _, k := range hiddenBlockKinds {
		out = append(out, "H:"+k)
	}
	for _, k := range skippedKinds {
		out = append(out, "S:"+k)
	}
	return out
}

// c04Doc returns the document of case idx: even = random article with all
// carrier kinds, odd = one cell of the (carrier kind x placement) grid
// embedded in a small article.
func (c *Ctx) c04Doc(idx int, noise bool) (*artRun, bool) {
	if idx%2 == 0 {
		prof := fullProfile()
		prof.Skipped = true
		prof.AttrNoise = noise
		prof.MXSS = noise // C05 only
		prof.MediaInText = true
		return c.runArticle(idx, prof, nil)
	}
	carriers := c04Carriers()
	cell := (idx / 2) % (len(carriers) * len(c04Placements))
	carrier := carriers[cell%len(carriers)]
	place := c04Placements[cell/len(carriers)]
	r := c.RNG(idx, 3)
	g := NewArtGen(r, Profile{Inline: true, AttrNoise: noise, Hidden: true, Skipped: true, Images: true})
	emit := func() {
		g.push(place)
		if strings.HasPrefix(carrier, "H:") {
			g.hiddenCarrier(carrier[2:])
		} else {
			g.skippedCarrier(carrier[2:])
		}
		g.pop()
	}
	g.w("<html><head><title>" + g.tokK(KTitle, "title") + "</title></head><body" + g.noise() + ">\n")
	if place == "top" {
		emit()
	}
	g.w("<div" + g.noise() + ">\n")
	for i := 0; i < 1+r.Intn(2); i++ {
		g.paragraph(30 + r.Intn(40))
	}
	switch place {
	case "between":
		emit()
	case "in-p":
		g.w("<p" + g.noise() + ">" + g.toks(20+r.Intn(20)) + " ")
		emit()
		g.w(" " + g.toks(10+r.Intn(20)) + "</p>\n")
	case "in-li":
		g.w("<ul" + g.noise() + "><li" + g.noise() + ">" + g.toks(15+r.Intn(10)) + "</li><li" + g.noise() + ">" + g.toks(10+r.Intn(10)) + " ")
		emit()
		g.w(" " + g.toks(8) + "</li></ul>\n")
	case "layout-td":
		g.w(`<table role="presentation"` + g.noise() + `><tr><td` + g.noise() + `>`)
		g.paragraph(30 + r.Intn(20))
		emit()
		g.w(`</td><td>`)
		g.paragraph(30)
		g.w("</td></tr></table>\n")
	case "data-td":
		g.curTab = 0
		g.push("datatable")
		g.w(`<table` + g.noise() + `><tr><th>` + g.toks(1) + `</th><th>` + g.toks(1) + `</th></tr><tr><td` + g.noise() + `>` + g.toks(2) + " ")
		emit()
		g.w(` ` + g.toks(1) + `</td><td>` + g.toks(2) + `</td></tr><tr><td>` + g.toks(1) + `</td><td>` + g.toks(1) + `</td></tr></table>` + "\n")
		g.pop()
		g.curTab = -1
	case "figcaption-links", "figcaption-plain", "figure-body":
		g.curFig = 0
		g.push("figure")
		g.w(`<figure` + g.noise() + `><img src="/img/fig` + fmt.Sprint(idx) + `.png"` + g.noise() + `>`)
		if place == "figure-body" {
			emit()
			g.w(`<figcaption>` + g.toks(3) + `</figcaption>`)
		} else {
			g.w(`<figcaption` + g.noise() + `>` + g.toks(3) + " ")
			if place == "figcaption-links" {
				g.w(`<a href="/cap/` + fmt.Sprint(idx) + `.html">` + g.toks(2) + `</a> `)
			}
			emit()
			g.w(" " + g.toks(2) + `</figcaption>`)
		}
		g.w("</figure>\n")
		g.pop()
		g.curFig = -1
	case "tweet":
		g.w(`<blockquote` + g.noiseClass("twitter-tweet") + `><p` + g.noise() + `>` + g.toksK(5, KPlaceholder, "tweet") + `</p>`)
		emit()
		g.w(` <a href="https://twitter.com/user/status/99` + fmt.Sprint(idx) + `">` + g.toksK(1, KPlaceholder, "tweet") + `</a></blockquote>` + "\n")
	}
	for i := 0; i < 1+r.Intn(2); i++ {
		g.paragraph(30 + r.Intn(40))
	}
	g.w("</div></body></html>")
	src := g.sb.String()
	ar := &artRun{Src: src, G: g, Mode: "reader", URL: g.P.PageURL}
	c.SetInput(func() any { return map[string]any{"html": src} })
	cr := c.applyReader(src, nil)
	c.Inc("grid_cases")
	g.L.Kinds["grid:"+carrier+"@"+place]++
	if !c.usable(cr) {
		return ar, false
	}
	ar.Res = cr.Res
	return ar, true
}

// htmlTokensOutsidePlaceholders returns the tokens of text nodes of the
// distilled HTML that are not inside an embed placeholder.
func htmlTokensOutsidePlaceholders(n *html.Node) []string {
	// everything a reader of the serialised HTML could see: text nodes,
	// comment nodes and attribute values
	var out []string
	walk(n, func(x *html.Node) bool {
		switch x.Type {
		case html.ElementNode:
			if isPlaceholder(x) {
				return false
			}
			for _, a := range x.Attr {
				out = append(out, rxTok.FindAllString(a.Val, -1)...)
			}
		case html.TextNode, html.CommentNode:
			out = append(out, rxTok.FindAllString(x.Data, -1)...)
		}
		return true
	})
	return out
}

func init() {
	register(&Prop{
		ID:   "C04",
		Rule: "even cases: random G-article pages with every hidden carrier (script, style, comment, head, hidden attr, display:none, visibility:hidden/collapse, aria-hidden) and every skipped carrier (form, input, button, select, textarea, noscript, svg, object, embed, applet, unrecognised iframe) at random places incl. inline, data-table cells and captions; odd cases: the full grid 20 carrier kinds x 10 placements (top, between blocks, in p, in li, layout td, data td, figcaption with links, plain figcaption, figure body, inside a twitter quote). Non-trivial = the page produced output and contained a carrier; distinct = distinct (carrier kind, placement, table/figure retained or not).",
		Assumptions: []string{
			"the exemption 'nested inside a retained data table or figure' is decided from the ledger (carrier emitted while a data table / figure was open)",
			"tokens inside embed placeholders are exempt in the HTML view only",
		},
		N: func(tier string) int {
			if tier == "quick" {
				return 30000
			}
			return 300000
		},
		Floors: func(tier string) map[string]int64 {
			return map[string]int64{"hidden_tokens_in_source": 20000, "skipped_tokens_in_source": 4000, "docs_with_output": 2000, "carriers_inside_retained_table_or_figure": 100}
		},
		Run: runC04,
	})
}

func runC04(c *Ctx, idx int) {
	ar, ok := c.c04Doc(idx, false)
	if !ok {
		return
	}
	L := ar.G.L
	textToks := rxTok.FindAllString(ar.Res.Text, -1)
	htmlToks := htmlTokensOutsidePlaceholders(ar.Res.Node)
	if len(textToks) > 0 {
		c.Inc("docs_with_output")
	}
	emitted := tokenSet(textToks)
	for _, t := range htmlToks {
		emitted[t] = true
	}
	// which tables / figures are retained (any of their cell/caption tokens emitted, or their marker)
	look := func(view string, toks []string) bool {
		for _, t := range toks {
			n := tokIdx(t)
			if n <= 0 || n >= len(L.Toks) {
				continue // C02's business
			}
			ti := L.Toks[n]
			switch ti.Kind {
			case KHidden, KTitle:
				c.Violation("leak:"+view+":"+ti.Sub+"@"+ti.Place, fmt.Sprintf("%s view contains %s, which occurs only inside a non-rendered carrier (%s) placed at %s", view, t, ti.Sub, ti.Place),
					ar.witness(map[string]any{"token": t, "carrier": ti.Sub, "placement": ti.Place}))
				return false
			case KSkipped:
				if ti.Table < 0 && ti.Figure < 0 {
					c.Violation("leak:"+view+":"+ti.Sub+"@"+ti.Place, fmt.Sprintf("%s view contains %s, text of a skipped element (%s) at %s that is not inside a data table or figure", view, t, ti.Sub, ti.Place),
						ar.witness(map[string]any{"token": t, "carrier": ti.Sub, "placement": ti.Place}))
					return false
				}
				c.Inc("skipped_text_emitted_inside_table_or_figure(exempt)")
			case KPlaceholder:
				if view == "text" {
					c.Violation("leak:text:placeholder", fmt.Sprintf("text view contains %s, text of an embed placeholder", t), ar.witness(map[string]any{"token": t}))
					return false
				}
			}
		}
		return true
	}
	if !look("text", textToks) || !look("html", htmlToks) {
		return
	}
	var nh, ns, inRet int64
	seenCarrier := map[string]bool{}
	for n := 1; n < len(L.Toks); n++ {
		ti := L.Toks[n]
		switch ti.Kind {
		case KHidden:
			nh++
		case KSkipped:
			ns++
		default:
			continue
		}
		retained := false
		if ti.Table >= 0 || ti.Figure >= 0 {
			// was the enclosing table / figure retained? (a sibling visible token was emitted)
			for m := n - 1; m >= 1 && m > n-40; m-- {
				o := L.Toks[m]
				if (o.Kind == KCell || o.Kind == KCaption) && o.Table == ti.Table && o.Figure == ti.Figure && emitted[fmt.Sprintf("w%dq", m)] {
					retained = true
					break
				}
			}
			if retained {
				inRet++
			}
		}
		key := fmt.Sprintf("%s|%s|%v", ti.Sub, ti.Place, retained)
		if !seenCarrier[key] && len(textToks) > 0 {
			seenCarrier[key] = true
			c.Sig(key)
		}
	}
	c.Count("hidden_tokens_in_source", nh)
	c.Count("skipped_tokens_in_source", ns)
	c.Count("carriers_inside_retained_table_or_figure", inRet)
	c.Count("tokens_emitted", int64(len(textToks)))
	c.Sample(func() any { return map[string]any{"case": idx, "html": trunc(ar.Src, 1500)} })
}
