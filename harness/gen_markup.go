package main

import (
	"fmt"
	"strings"

	"github.com/markusmobius/go-domdistiller/data"
)

// G-markup: three separable markup sources (OpenGraph, schema.org microdata,
// IE Reading View) plus an optional IE_RM_OFF tag, in shuffled order.

type mfrag struct {
	src  string // "og", "so", "ie", "opt", "" (neutral)
	head bool
	html string
}

type markupDoc struct {
	All, OG, SO, IE string
	OptOut          string // content of the IE_RM_OFF tag, "" if absent
	Canon           bool
	Want            data.MarkupInfo // expected result, canonical documents only
	Sig             string
	HtmlAttrs       string
	ArticleWild     bool // canonical documents: the article record is not checked
}

type mgen struct {
	r    *RNG
	uniq int
	fr   []mfrag
}

func (m *mgen) tok(pfx string) string { m.uniq++; return fmt.Sprintf("%s%d", pfx, m.uniq) }
func (m *mgen) add(src string, head bool, h string) {
	m.fr = append(m.fr, mfrag{src, head, h})
}

// p returns true with probability (n-1)/n.
func (m *mgen) p(n int) bool { return m.r.Intn(n) != 0 }

func (m *mgen) neutral() {
	for i := 0; i < 3; i++ {
		var sb strings.Builder
		pfx := m.tok("n")
		for k := 0; k < 30; k++ {
			fmt.Fprintf(&sb, "%s%d ", pfx, k)
		}
		m.add("", false, "<p>"+sb.String()+"</p>")
	}
	if m.r.Intn(4) == 0 {
		// a client-side template: its content is inert, none of it is markup of the page
		m.fr = append([]mfrag{{"", false, `<template><meta name="IE_RM_OFF" content="true"><meta property="og:title" content="{{title}}"><meta name="title" content="{{t}}"><div itemscope itemtype="http://schema.org/Article"><span itemprop="headline">{{headline}}</span><span itemprop="author">{{a}}</span><time itemprop="datePublished" datetime="{{d}}">x</time></div><span class="byline-name">{{b}}</span><span class="dateline">{{dl}}</span><a rel="author" href="/x">{{ra}}</a></template>`}}, m.fr...)
	}
	if m.r.Intn(4) == 0 {
		// inline pictures / formulas with an element that happens to be called like a part of the document
		m.add("", false, []string{`<svg width="1" height="1"><html></html></svg>`, `<math><html></html></math>`, `<svg><head><title>x</title></head></svg>`}[m.r.Intn(3)])
	}
}

func (m *mgen) build(htmlAttrs string, keep func(string) bool) string {
	var heads, bodies []mfrag
	for _, f := range m.fr {
		if f.head {
			heads = append(heads, f)
		} else {
			bodies = append(bodies, f)
		}
	}
	var sb strings.Builder
	sb.WriteString("<html" + htmlAttrs + "><head><title>Some ordinary page title</title>")
	for _, f := range heads {
		if keep(f.src) {
			sb.WriteString(f.html)
		}
	}
	sb.WriteString("</head><body>")
	for _, f := range bodies {
		if keep(f.src) {
			sb.WriteString(f.html)
		}
	}
	sb.WriteString("</body></html>")
	return sb.String()
}

func (m *mgen) shuffle(all bool) {
	// shuffle body fragments; optionally head fragments too
	var hi, bi []int
	for i, f := range m.fr {
		if f.head {
			hi = append(hi, i)
		} else {
			bi = append(bi, i)
		}
	}
	sh := func(ix []int) {
		perm := m.r.Perm(len(ix))
		cp := make([]mfrag, len(ix))
		for k, p := range perm {
			cp[k] = m.fr[ix[p]]
		}
		for k, i := range ix {
			m.fr[i] = cp[k]
		}
	}
	sh(bi)
	if all {
		sh(hi)
	}
}

func (m *mgen) finish(d *markupDoc) {
	d.All = m.build(d.HtmlAttrs, func(s string) bool { return true })
	d.OG = m.build(d.HtmlAttrs, func(s string) bool { return s == "og" || s == "" })
	d.SO = m.build(d.HtmlAttrs, func(s string) bool { return s == "so" || s == "" })
	d.IE = m.build(d.HtmlAttrs, func(s string) bool { return s == "ie" || s == "" })
}

// genMarkupDoc: random combination (oracle A, metamorphic).
func genMarkupDoc(r *RNG) markupDoc {
	m := &mgen{r: r}
	d := markupDoc{}
	p := m.p
	pfx := "og"
	switch r.Intn(7) {
	case 0:
		d.HtmlAttrs = ` prefix="og: http://ogp.me/ns# article: http://ogp.me/ns/article#"`
	case 1:
		d.HtmlAttrs = ` prefix="ogp: http://ogp.me/ns#"`
		pfx = "ogp"
	case 2:
		d.HtmlAttrs = ` xmlns:og="http://ogp.me/ns#"`
	case 3:
		d.HtmlAttrs = ` prefix="og: http://ogp.me/ns# fb: http://ogp.me/ns/fb#"`
	}
	if p(4) {
		ogtype := []string{"article", "profile", "website", "Article"}[r.Intn(4)]
		var og []string
		if p(8) {
			og = append(og, `<meta property="`+pfx+`:title" content="`+m.tok("OGT")+`">`)
		}
		if p(8) {
			og = append(og, `<meta property="`+pfx+`:type" content="`+ogtype+`">`)
		}
		if p(8) {
			og = append(og, `<meta property="`+pfx+`:url" content="http://og.example/`+m.tok("u")+`">`)
		}
		if p(8) {
			og = append(og, `<meta property="`+pfx+`:image" content="http://og.example/`+m.tok("i")+`.png">`)
			if p(2) {
				og = append(og, `<meta property="`+pfx+`:image:width" content="640">`)
			}
			if r.Intn(3) == 0 {
				og = append(og, `<meta property="`+pfx+`:image" content="http://og.example/`+m.tok("i")+`.jpg">`, `<meta property="`+pfx+`:image:type" content="image/jpeg">`)
			}
		}
		if p(2) {
			og = append(og, `<meta property="`+pfx+`:description" content="`+m.tok("OGD")+`">`)
		}
		if p(2) {
			og = append(og, `<meta property="`+pfx+`:site_name" content="`+m.tok("OGS")+`">`)
		}
		if p(2) {
			og = append(og, `<meta property="article:section" content="`+m.tok("OGSEC")+`">`)
		}
		if p(2) {
			og = append(og, `<meta property="article:published_time" content="`+m.tok("OGPT")+`">`)
		}
		if p(3) {
			og = append(og, `<meta property="article:author" content="http://og.example/`+m.tok("a")+`">`)
		}
		if p(2) {
			og = append(og, `<meta property="profile:first_name" content="`+m.tok("OGFN")+`">`)
			og = append(og, `<meta property="profile:last_name" content="`+m.tok("OGLN")+`">`)
		}
		if r.Intn(3) == 0 {
			perm := r.Perm(len(og))
			cp := make([]string, len(og))
			for i, k := range perm {
				cp[i] = og[k]
			}
			og = cp
		}
		for _, x := range og {
			m.add("og", true, x)
		}
		d.Sig += "og,"
	}
	nItems := 0
	if p(3) {
		nItems = 1
		if r.Intn(4) == 0 {
			nItems = 2
		}
	}
	for it := 0; it < nItems; it++ {
		var sb strings.Builder
		typ := []string{"Article", "NewsArticle", "BlogPosting", "Recipe", "TechArticle"}[r.Intn(5)]
		// the type URL in its http and https spelling, with white space around it, followed by a second type
		itemtype := []string{"http://schema.org/" + typ, "http://schema.org/" + typ, "https://schema.org/" + typ, " http://schema.org/" + typ + " ", "https://schema.org/" + typ + " http://example.org/Other"}[r.Intn(5)]
		sb.WriteString(`<div itemscope itemtype="` + itemtype + `">`)
		if p(3) {
			sb.WriteString(`<span itemprop="headline">` + m.tok("SOH") + `</span>`)
		}
		if p(2) {
			sb.WriteString(`<span itemprop="name">` + m.tok("SON") + `</span>`)
		}
		if p(2) {
			sb.WriteString(`<meta itemprop="url" content="http://so.example/` + m.tok("u") + `">`)
		}
		if p(2) {
			sb.WriteString(`<span itemprop="description">` + m.tok("SOD") + `</span>`)
		}
		if p(2) {
			sb.WriteString(`<img itemprop="image" src="http://so.example/` + m.tok("i") + `.png">`)
		}
		switch r.Intn(4) {
		case 0:
			sb.WriteString(`<span itemprop="publisher">` + m.tok("SOP") + `</span>`)
		case 1:
			sb.WriteString(`<div itemprop="publisher" itemscope itemtype="http://schema.org/Organization"><span itemprop="name">` + m.tok("SOPN") + `</span></div>`)
		case 2:
			sb.WriteString(`<div itemprop="copyrightHolder" itemscope itemtype="http://schema.org/Organization"><span itemprop="legalName">` + m.tok("SOLN") + `</span></div>`)
		}
		switch r.Intn(4) {
		case 0:
			sb.WriteString(`<span itemprop="author">` + m.tok("SOA") + `</span>`)
		case 1:
			sb.WriteString(`<div itemprop="author" itemscope itemtype="http://schema.org/Person"><span itemprop="givenName">` + m.tok("SOG") + `</span> <span itemprop="familyName">` + m.tok("SOF") + `</span></div>`)
		case 2:
			sb.WriteString(`<span itemprop="creator">` + m.tok("SOC") + `</span>`)
		}
		if p(2) {
			sb.WriteString(`<span itemprop="copyrightYear">2019</span>`)
		}
		if p(2) {
			sb.WriteString(`<time itemprop="datePublished" datetime="` + m.tok("SODP") + `">x</time>`)
		}
		if p(2) {
			sb.WriteString(`<span itemprop="articleSection">` + m.tok("SOSEC") + `</span>`)
		}
		if r.Intn(4) == 0 {
			if r.Intn(3) == 0 {
				sb.WriteString(`<div itemprop="associatedMedia" itemscope itemtype="http://schema.org/ImageObject"><meta itemprop="width" content="800"><span itemprop="caption">` + m.tok("SOAMC") + `</span></div>`)
			} else {
				sb.WriteString(`<div itemprop="associatedMedia" itemscope itemtype="http://schema.org/ImageObject"><meta itemprop="contentUrl" content="http://so.example/` + m.tok("am") + `.png"><meta itemprop="width" content="800"></div>`)
			}
		}
		sb.WriteString(`</div>`)
		m.add("so", false, sb.String())
		if p(2) {
			rep := ""
			if r.Intn(3) == 0 {
				rep = `<meta itemprop="representativeOfPage" content="true">`
			}
			url := `<meta itemprop="contentUrl" content="http://so.example/` + m.tok("io") + `.png">`
			switch r.Intn(8) {
			case 0:
				url = "" // an image object without any location
			case 1:
				url = `<meta itemprop="contentUrl" content=""><meta itemprop="url" content=" ">`
			}
			m.add("so", false, `<div itemscope itemtype="http://schema.org/ImageObject">`+url+`<span itemprop="caption">`+m.tok("SOCAP")+`</span>`+rep+`</div>`)
		}
		d.Sig += "so:" + typ + ","
	}
	if r.Intn(4) == 0 {
		m.add("so", false, `<a rel="author" href="/x">`+m.tok("SOREL")+`</a>`)
		d.Sig += "rel,"
	}
	if p(3) {
		if p(2) {
			m.add("ie", r.Intn(4) != 0, `<meta name="title" content="`+m.tok("IET")+`">`)
		}
		if p(2) {
			m.add("ie", r.Intn(4) != 0, `<meta name="copyright" content="`+m.tok("IEC")+`">`)
		}
		if p(2) {
			m.add("ie", r.Intn(4) != 0, `<meta name="displaydate" content="`+m.tok("IED")+`">`)
		}
		if p(2) {
			m.add("ie", false, `<span class="byline-name">`+m.tok("IEA")+`</span>`)
		}
		if p(3) {
			m.add("ie", false, `<span class="dateline">`+m.tok("IEDL")+`</span>`)
		}
		if p(2) {
			m.add("ie", false, `<div publisher="`+m.tok("IEP")+`">z</div>`)
		}
		if p(2) {
			m.add("ie", false, `<figure><img src="http://ie.example/`+m.tok("i")+`.png" width="600" height="400"><figcaption>`+m.tok("IECAP")+`</figcaption></figure>`)
		}
		if r.Intn(3) == 0 {
			m.add("ie", false, `<img src="http://ie.example/`+m.tok("big")+`.png" width="800" height="500">`)
		}
		d.Sig += "ie,"
	}
	if r.Intn(6) == 0 {
		d.OptOut = []string{"true", "TRUE", "false", "1", "True"}[r.Intn(5)]
		name := []string{"IE_RM_OFF", "ie_rm_off"}[r.Intn(2)]
		m.add("opt", r.Intn(3) != 0, `<meta name="`+name+`" content="`+d.OptOut+`">`) // sometimes inside <body>
		d.Sig += "opt:" + strings.ToLower(d.OptOut) + ","
	}
	m.neutral()
	m.shuffle(r.Intn(2) == 0)
	m.finish(&d)
	return d
}

// genCanonMarkupDoc: canonical documents with the expected MarkupInfo known
// by construction (oracle B). k enumerates required-property subsets x source
// presence; the optional fields are drawn from r.
func genCanonMarkupDoc(r *RNG, k int) markupDoc {
	m := &mgen{r: r}
	d := markupDoc{Canon: true}
	d.HtmlAttrs = []string{"", "", ` prefix="og: http://ogp.me/ns#"`, ` prefix="og: http://ogp.me/ns# fb: http://ogp.me/ns/fb#"`, ` prefix="og: http://ogp.me/ns# article: http://ogp.me/ns/article# video: http://ogp.me/ns/video#"`,
		` xmlns:og="http://ogp.me/ns#" xmlns:fb="http://ogp.me/ns/fb#"`, ` lang="en" prefix="fb: http://ogp.me/ns/fb# og: http://ogp.me/ns#"`}[r.Intn(7)]
	reqMask := k % 16       // bit0 title, bit1 type, bit2 url, bit3 image (1 = present)
	srcMask := (k / 16) % 8 // bit0 og, bit1 so, bit2 ie
	ogType := []string{"article", "article", "website", "ARTICLE"}[(k/128)%4]
	if r.Intn(5) == 0 {
		ogType = "profile"
	}
	opt := (k / 512) % 3 // 0 none, 1 opt-out true, 2 opt-out false
	p := m.p

	type src struct {
		on                                                  bool
		title, typ, url, desc, publisher, copyright, author string
		images                                              []data.MarkupImage
		article                                             *data.MarkupArticle
	}
	var og, so, ie src

	if srcMask&1 != 0 {
		var title, typ, url, img string
		if reqMask&1 != 0 {
			title = m.tok("OGT")
			m.add("og", true, `<meta property="og:title" content="`+title+`">`)
		}
		if reqMask&2 != 0 {
			typ = ogType
			m.add("og", true, `<meta property="og:type" content="`+typ+`">`)
		}
		if reqMask&4 != 0 {
			url = "http://og.example/" + m.tok("u")
			m.add("og", true, `<meta property="og:url" content="`+url+`">`)
		}
		if reqMask&8 != 0 {
			img = "http://og.example/" + m.tok("i") + ".png"
			m.add("og", true, `<meta property="og:image" content="`+img+`">`)
		}
		var desc, site, sec, pt string
		// article:author (round-6 addition): a side stream decides, so that the draws of r are
		// those of earlier versions. 0 = no author tag, 1 = author tags next to the other
		// article:* properties, 2 = author tags are the ONLY article:* properties.
		ar := NewRNG(0xa07c14, r.s, uint64(k))
		authorMode := ar.Intn(3)
		if p(2) {
			desc = m.tok("OGD")
			m.add("og", true, `<meta property="og:description" content="`+desc+`">`)
		}
		if p(2) {
			site = m.tok("OGS")
			m.add("og", true, `<meta property="og:site_name" content="`+site+`">`)
		}
		if p(2) {
			sec = m.tok("OGSEC")
			tag := `<meta property="article:section" content="` + sec + `">`
			if r.Intn(3) == 0 {
				// an article:* tag that precedes og:type in the document ("in any order")
				if authorMode != 2 {
					m.fr = append([]mfrag{{"og", true, tag}}, m.fr...)
				}
			} else if authorMode != 2 {
				m.add("og", true, tag)
			}
		}
		if p(2) {
			pt = m.tok("OGPT")
			if authorMode != 2 {
				m.add("og", true, `<meta property="article:published_time" content="`+pt+`">`)
			}
		}
		var ogAuthors []string
		if authorMode == 2 {
			sec, pt = "", ""
		}
		if authorMode != 0 {
			for i := 0; i < 1+ar.Intn(2); i++ {
				a := fmt.Sprintf("http://og.example/author/OGAU%dx%d", k, i)
				ogAuthors = append(ogAuthors, a)
				m.add("og", true, `<meta property="article:author" content="`+a+`">`)
			}
		}
		// the profile object: first and last name, either may be missing
		var first, last string
		if ogType == "profile" || r.Intn(6) == 0 {
			if p(3) {
				first = m.tok("OGFN")
				m.add("og", true, `<meta property="profile:first_name" content="`+first+`">`)
			}
			if p(3) {
				last = m.tok("OGLN")
				tag := `<meta property="profile:last_name" content="` + last + `">`
				if r.Intn(3) == 0 {
					m.fr = append([]mfrag{{"og", true, tag}}, m.fr...)
				} else {
					m.add("og", true, tag)
				}
			}
		}
		// properties whose names merely start like the ones that are read
		if r.Intn(3) == 0 {
			decoys := []string{"og:title_alt", "og:url_hint", "og:description_short", "og:site_name_id", "article:section_url", "og:type_hint", "profile:first_name_kana", "article:published_time_zone"}
			for i := 0; i < 1+r.Intn(3); i++ {
				m.add("og", true, `<meta property="`+decoys[r.Intn(len(decoys))]+`" content="`+m.tok("DECOY")+`">`)
			}
		}
		if reqMask == 15 {
			og.on = true
			og.title, og.url, og.desc, og.publisher = title, url, desc, site
			if strings.ToLower(typ) == "article" {
				og.typ = "Article"
			}
			if strings.ToLower(typ) == "profile" {
				og.author = strings.TrimSpace(first + " " + last)
			}
			og.images = []data.MarkupImage{{URL: img}}
			// article:* properties are only read for og:type article
			if (sec != "" || pt != "" || len(ogAuthors) > 0) && og.typ == "Article" {
				og.article = &data.MarkupArticle{Section: sec, PublishedTime: pt, Authors: ogAuthors}
			}
		}
		d.Sig += fmt.Sprintf("og%d,", reqMask)
	}
	if srcMask&2 != 0 {
		so.on = true
		so.typ = "Article"
		relAuthor := false
		_ = relAuthor
		var sb strings.Builder
		typ := []string{"Article", "NewsArticle", "BlogPosting", "ScholarlyArticle", "TechArticle"}[r.Intn(5)]
		sb.WriteString(`<div itemscope itemtype="http://schema.org/` + typ + `">`)
		if p(3) {
			so.title = m.tok("SOH")
			sb.WriteString(`<span itemprop="headline">` + so.title + `</span>`)
		}
		if p(2) {
			n := m.tok("SON")
			if so.title == "" {
				so.title = n
			}
			sb.WriteString(`<span itemprop="name">` + n + `</span>`)
		}
		if p(2) {
			so.url = "http://so.example/" + m.tok("u")
			sb.WriteString(`<meta itemprop="url" content="` + so.url + `">`)
		}
		if p(2) {
			so.desc = m.tok("SOD")
			sb.WriteString(`<span itemprop="description">` + so.desc + `</span>`)
		}
		if p(2) {
			u := "http://so.example/" + m.tok("i") + ".png"
			so.images = []data.MarkupImage{{URL: u}}
			sb.WriteString(`<img itemprop="image" src="` + u + `">`)
		}
		if r.Intn(5) == 0 {
			// a nested item without a type: its properties are its own, not the article's
			sb.WriteString(`<div itemprop="sponsor" itemscope><span itemprop="name">` + m.tok("SOUNT") + `</span><meta itemprop="url" content="http://sponsor.example/` + m.tok("u") + `"><span itemprop="description">` + m.tok("SOUNT") + `</span><span itemprop="headline">` + m.tok("SOUNT") + `</span></div>`)
		}
		holder := ""
		switch r.Intn(4) {
		case 0:
			so.publisher = m.tok("SOP")
			sb.WriteString(`<span itemprop="publisher">` + so.publisher + `</span>`)
		case 1:
			so.publisher = m.tok("SOPN")
			sb.WriteString(`<div itemprop="publisher" itemscope itemtype="http://schema.org/Organization"><span itemprop="name">` + so.publisher + `</span></div>`)
		case 2:
			holder = m.tok("SOLN")
			so.publisher = holder
			sb.WriteString(`<div itemprop="copyrightHolder" itemscope itemtype="http://schema.org/Organization"><span itemprop="legalName">` + holder + `</span></div>`)
		}
		switch r.Intn(5) {
		case 0:
			so.author = m.tok("SOA")
			sb.WriteString(`<span itemprop="author">` + so.author + `</span>`)
		case 1:
			so.author = m.tok("SOC")
			sb.WriteString(`<span itemprop="creator">` + so.author + `</span>`)
		case 2:
			// an item of a type that is not Person/Organization supplies no author
			sb.WriteString(`<span itemprop="author" itemscope itemtype="http://schema.org/MusicGroup">by ` + m.tok("SOUNS") + `</span>`)
		case 3:
			so.author = m.tok("SOPER")
			sb.WriteString(`<div itemprop="author" itemscope itemtype="https://schema.org/Person"><span itemprop="name">` + so.author + `</span></div>`)
		}
		itemAuthor := so.author // the article record names the item's own author / creator only
		if so.author == "" && r.Intn(2) == 0 {
			// rel=author: the first element that has text names the author
			so.author = m.tok("SOREL")
			m.add("so", true, `<link rel="author" href="/people/1">`)
			m.add("so", false, `<p><a rel="author" href="/people/1"><img src="/avatar.png" alt=""></a> <a rel="author" href="/people/1">`+so.author+`</a> <a rel="author" href="/people/2">`+m.tok("SOREL")+`</a></p>`)
			relAuthor = true
		}
		year := ""
		if p(2) {
			year = fmt.Sprint(1990 + r.Intn(30))
			sb.WriteString(`<span itemprop="copyrightYear">` + year + `</span>`)
		}
		switch {
		case year != "" && holder != "":
			so.copyright = "Copyright " + year + " " + holder
		case year != "" || holder != "":
			so.copyright = "Copyright " + year + holder
		}
		art := &data.MarkupArticle{}
		if p(2) {
			art.PublishedTime = m.tok("SODP")
			sb.WriteString(`<time itemprop="datePublished" datetime="` + art.PublishedTime + `">x</time>`)
		}
		if p(2) {
			art.ModifiedTime = m.tok("SODM")
			sb.WriteString(`<time itemprop="dateModified" datetime="` + art.ModifiedTime + `">y</time>`)
		}
		if p(2) {
			art.Section = m.tok("SOSEC")
			sb.WriteString(`<span itemprop="articleSection">` + art.Section + `</span>`)
		}
		if itemAuthor != "" {
			art.Authors = []string{itemAuthor}
		}
		so.article = art
		sb.WriteString(`</div>`)
		m.add("so", false, sb.String())
		d.Sig += "so,"
	}
	if srcMask&4 != 0 {
		ie.on = true
		date := ""
		if p(2) {
			ie.title = m.tok("IET")
			m.add("ie", r.Intn(4) != 0, `<meta name="title" content="`+ie.title+`">`)
		}
		if p(2) {
			ie.copyright = m.tok("IEC")
			m.add("ie", r.Intn(4) != 0, `<meta name="copyright" content="`+ie.copyright+`">`)
		}
		if p(2) {
			date = m.tok("IED")
			m.add("ie", r.Intn(4) != 0, `<meta name="displaydate" content="`+date+`">`)
		}
		if p(2) {
			ie.author = m.tok("IEA")
			m.add("ie", false, `<span class="byline-name"> `+ie.author+` </span>`)
		}
		if p(3) {
			date = m.tok("IEDL")
			m.add("ie", false, `<span class="dateline">`+date+`</span>`)
		}
		if p(2) {
			ie.publisher = m.tok("IEP")
			if r.Intn(2) == 0 {
				m.add("ie", false, `<font publisher="`+ie.publisher+`" color="gray">z</font>`) // an element the converter rewrites
			} else {
				m.add("ie", false, `<div publisher="`+ie.publisher+`">z</div>`)
			}
		}
		if p(2) {
			u := "http://ie.example/" + m.tok("i") + ".png"
			cap := m.tok("IECAP")
			ie.images = []data.MarkupImage{{URL: u, Caption: cap, Width: 600, Height: 400}}
			lazy := ""
			if r.Intn(2) == 0 {
				lazy = ` data-src="http://lazy.example/other.png"` // the document's src is what the metadata reports
			}
			m.add("ie", false, `<figure><img src="`+u+`"`+lazy+` width="600" height="400"><figcaption>`+cap+`</figcaption></figure>`)
		}
		ie.article = &data.MarkupArticle{PublishedTime: date}
		if ie.author != "" {
			ie.article.Authors = []string{ie.author}
		}
		d.Sig += "ie,"
	}
	if ie.article == nil {
		ie.article = &data.MarkupArticle{} // the IE reader always supplies a record
	}
	switch opt {
	case 1:
		d.OptOut = []string{"true", "TRUE", "True"}[r.Intn(3)]
		m.add("opt", r.Intn(3) != 0, `<meta name="IE_RM_OFF" content="`+d.OptOut+`">`)
	case 2:
		d.OptOut = []string{"false", "0", "no"}[r.Intn(3)]
		m.add("opt", r.Intn(3) != 0, `<meta name="IE_RM_OFF" content="`+d.OptOut+`">`)
	}
	d.Sig += fmt.Sprintf("t=%s,opt=%d", ogType, opt)

	// the IE image list also sees images of the other sources, but only if
	// captioned or sized: the canonical og/so images are neither.
	first := func(xs ...string) string {
		for _, x := range xs {
			if x != "" {
				return x
			}
		}
		return ""
	}
	if opt != 1 {
		w := &d.Want
		w.Title = first(og.title, so.title, ie.title)
		w.Type = first(og.typ, so.typ, ie.typ)
		w.URL = first(og.url, so.url, ie.url)
		w.Description = first(og.desc, so.desc, ie.desc)
		w.Publisher = first(og.publisher, so.publisher, ie.publisher)
		w.Copyright = first(og.copyright, so.copyright, ie.copyright)
		w.Author = first(og.author, so.author, ie.author)
		switch {
		case len(og.images) > 0:
			w.Images = og.images
		case len(so.images) > 0:
			w.Images = so.images
		default:
			w.Images = ie.images
		}
		switch {
		case og.article != nil:
			w.Article = *og.article
		case so.article != nil:
			w.Article = *so.article
		default:
			w.Article = *ie.article
		}
	}
	// spellings of the property attribute: a white space separated list of names (RDFa), padded, upper-case prefix
	switch r.Intn(5) {
	case 0:
		for i := range m.fr {
			if m.fr[i].src == "og" && r.Intn(2) == 0 {
				m.fr[i].html = strings.Replace(m.fr[i].html, `property="og:title"`, `property="og:title twitter:title"`, 1)
				m.fr[i].html = strings.Replace(m.fr[i].html, `property="og:url"`, `property=" og:url "`, 1)
				m.fr[i].html = strings.Replace(m.fr[i].html, `property="og:image"`, `property="twitter:image og:image"`, 1)
				m.fr[i].html = strings.Replace(m.fr[i].html, `property="og:description"`, "property=\"og:description\n\"", 1)
			}
		}
	case 1:
		if strings.Contains(d.HtmlAttrs, `prefix="og: http://ogp.me/ns#"`) && !strings.Contains(d.HtmlAttrs, "article:") {
			d.HtmlAttrs = strings.Replace(d.HtmlAttrs, `prefix="og: `, `prefix="OG: `, 1)
			for i := range m.fr {
				m.fr[i].html = strings.ReplaceAll(m.fr[i].html, `property="og:`, `property="OG:`)
			}
		}
	}
	m.neutral()
	m.shuffle(true) // "in any order in the document": head tags too (og:type after the object properties, ...)
	m.finish(&d)
	return d
}
