package main

import (
	"bufio"
	"fmt"
	"golang.org/x/net/html"
	"golang.org/x/text/encoding/charmap"
	"golang.org/x/text/unicode/norm"
	"os"
	"path/filepath"
	"strconv"
	"strings"
	"unicode/utf8"

	"github.com/go-shiori/dom"
	distiller "github.com/markusmobius/go-domdistiller"
)

// C11 — the result is a deterministic function of (document, options).
//
// Cases [0,N): pass 1. Cases [N,2N): pass 2 runs the same inputs in reverse
// order, which puts every input into another worker process (other hash seed,
// other neighbours, other history). Both passes write a digest per input; the
// parent compares them after the workers ended.

func c11N(tier string) int {
	if tier == "quick" {
		return 6000
	}
	return 60000
}

func init() {
	register(&Prop{
		ID:   "C11",
		Rule: "inputs biased to what makes map iteration matter: hostile G-pager documents (several numeric URL components per link, gapped and equal-length runs, multi-valued query parameters, single-link groups), G-article pages with pagers, G-markup pages with several schema.org items / OpenGraph prefixes. (a) every input runs R times in one process (R = 8 quick / 40 thorough for pagination-bearing inputs, 3 / 6 otherwise), alternating ApplyForReader, ApplyForFile and Apply(dom.Parse(bytes)); all of Title, Text, serialised Node, WordCount, ContentImages, MarkupInfo, PaginationInfo, URL must be equal (nil = empty slice; TimingInfo ignored); (b) every input runs again in a second pass in reverse order in a different worker process and the digests of both passes are compared by the parent; (c) one input in 32 is a pair of pages of one (case-unique) host whose page URL + reference read the same when concatenated but resolve differently (http://h/story + /2, http://h/story/ + 2; cuts inside a component or the query), run in one order in the first pass and in the other order in the second. Non-trivial = an input with non-empty output or non-empty pagination/markup; distinct = distinct input digests.",
		Assumptions: []string{
			"map-order dependence is probabilistic per input: a 25% minority outcome is missed with probability 0.75^8 = 10% per input in quick and 1e-5 in thorough; many inputs share a cause",
			"ApplyForFile reads the same bytes from a scratch file",
		},
		N:       func(tier string) int { return 2 * c11N(tier) },
		Workers: 16,
		Floors: func(tier string) map[string]int64 {
			return map[string]int64{"repetitions_compared": 15000, "inputs_with_pagination_result": 500, "inputs_with_markup": 200, "cross_process_pairs_compared": 2000, "alias_pairs_with_links_that_differ": 100}
		},
		Run:        runC11,
		PostParent: c11Post,
	})
}

func c11Input(c *Ctx, j int) (src string, opts *distiller.Options, paging bool, kind string) {
	r := c.RNG(j, 1)
	switch j % 4 {
	case 0, 1:
		pg := genPager(r, true)
		if j%8 == 1 {
			pg = genTiePager(r) // shapes with several equally plausible readings
			return pg.HTML, &distiller.Options{OriginalURL: mustURL(pg.PageURL), PaginationAlgo: distiller.PageNumber}, true, "pager"
		}
		return pg.HTML, &distiller.Options{OriginalURL: mustURL(pg.PageURL), PaginationAlgo: distiller.PaginationAlgo(j / 4 % 2)}, true, "pager"
	case 2:
		prof := fullProfile()
		prof.Skipped, prof.MediaInText, prof.RelURLs = true, true, true
		g := NewArtGen(r, prof)
		src := g.Doc()
		pg := genPager(r, true)
		i := strings.Index(pg.HTML, "<body>")
		src = strings.Replace(src, "</body>", pg.HTML[i+6:len(pg.HTML)-len("</body></html>")]+"</body>", 1)
		return src, &distiller.Options{OriginalURL: mustURL(pg.PageURL), PaginationAlgo: distiller.PaginationAlgo(j / 4 % 2)}, true, "article+pager"
	default:
		md := genMarkupDoc(r)
		src := md.All
		if j%8 == 3 {
			// valid UTF-8 that a parser may normalise: literal soft hyphens, decomposed accents, NBSP
			src = strings.Replace(src, "</body>", "<h2>U\u0308ber\u00adra\u00adschung cafe\u0301</h2><p>"+strings.Repeat("Stra\u00dfen\u00adbahn re\u0301sume\u0301 na\u00efve \u00a0 co\u00f6perate ", 12)+"</p></body>", 1)
			return src, &distiller.Options{OriginalURL: mustURL("http://example.com/news/story.html")}, false, "markup+unicode"
		}
		if j%8 == 7 {
			// bytes in a legacy single-byte encoding (declared or not), or UTF-8 with very few
			// non-ASCII characters: inputs on which a statistical charset detector has close calls
			return legacyCharsetDoc(r), &distiller.Options{OriginalURL: mustURL("http://example.com/news/story.html")}, false, "legacy-charset"
		}
		return src, &distiller.Options{OriginalURL: mustURL("http://example.com/news/story.html")}, false, "markup"
	}
}

// unicodeBlockNFD rewrites the decomposed / soft-hyphenated words of the "markup+unicode" block to their NFC form.
var unicodeBlockNFD = strings.NewReplacer("U\u0308ber\u00adra\u00adschung", "\u00dcberraschung", "cafe\u0301", "caf\u00e9", "Stra\u00dfen\u00adbahn", "Stra\u00dfenbahn", "re\u0301sume\u0301", "r\u00e9sum\u00e9")

var legacySamples = []struct {
	enc  *charmap.Charmap
	name string
	text []string
}{
	{charmap.ISO8859_1, "ISO-8859-1", []string{"La señora de España llegó mañana con el niño pequeño.", "El pingüino comió jamón y después durmió en la montaña.", "¿Cuándo volverá el señor Muñoz a la compañía?"}},
	{charmap.ISO8859_1, "ISO-8859-1", []string{"Le café près de l'hôtel était fermé à cause de la fête.", "Où est passée la crème brûlée que j'ai commandée hier ?", "Noël approche et les élèves préparent déjà leurs cadeaux."}},
	{charmap.ISO8859_1, "ISO-8859-1", []string{"Die Straße führt über die Brücke zum größten Gebäude.", "Müller kauft Äpfel, Öl und süße Brötchen für das Frühstück."}},
	{charmap.Windows1252, "windows-1252", []string{"The “quoted” café — naïve résumé’s coöperation… costs €5.", "A plain English sentence with only one é in it for good measure."}},
	{charmap.ISO8859_2, "ISO-8859-2", []string{"Zażółć gęślą jaźń, a potem wróć do domu przed północą.", "Łódź jest dużym miastem w środkowej Polsce, gdzie mieszka wiele osób."}},
	{charmap.Windows1251, "windows-1251", []string{"Съешь ещё этих мягких французских булок, да выпей чаю.", "В чащах юга жил бы цитрус? Да, но фальшивый экземпляр!"}},
	{charmap.ISO8859_7, "ISO-8859-7", []string{"Ξεσκεπάζω την ψυχοφθόρα βδελυγμία στην πόλη των Αθηνών."}},
	{charmap.ISO8859_9, "ISO-8859-9", []string{"Pijamalı hasta yağız şoföre çabucak güvendi ve gülümsedi."}},
}

var englishWords = strings.Fields("the of and a to in is you that it he was for on are as with his they at be this have from or one had by word but not what all were we when your can said there use an each which she do how their if will up other about out many then them these so some her would make like him into time has look two more write go see number no way could people my than first water been call who oil its now find long down day did get come made may part")

func fillerEnglish(r *RNG, n int) string {
	var w []string
	for i := 0; i < n; i++ {
		w = append(w, englishWords[r.Intn(len(englishWords))])
	}
	return strings.Join(w, " ")
}

// legacyCharsetDoc returns the bytes of a small article in a legacy encoding
// (or in UTF-8 with few non-ASCII characters).
func legacyCharsetDoc(r *RNG) string {
	if r.Intn(12) == 0 {
		// very short pages on which a statistical detector has nothing to go by
		return []string{"<html><head><title>Caf\xe9</title></head><body><p>Caf\xe9</p></body></html>", "<p>\x80</p>", "<p>\xe9t\xe9</p>", "<html><body><p>na\u00efve caf\u00e9</p></body></html>"}[r.Intn(4)]
	}
	if r.Intn(5) == 0 {
		// UTF-8 with one to three non-ASCII characters in otherwise English text (declared or not)
		meta := []string{"", `<meta charset="utf-8">`}[r.Intn(2)]
		accents := []string{"caf\u00e9", "na\u00efve", "\u2014", "Se\u00f1or", "\u00fcber"}
		body := "<p>The " + accents[r.Intn(5)] + " on the corner is open all day and serves breakfast until noon. " + fillerEnglish(r, 30+r.Intn(60)) + "</p><p>" + fillerEnglish(r, 40) + " " + accents[r.Intn(5)] + ".</p>"
		return "<html><head>" + meta + "<title>The " + accents[r.Intn(5)] + " review of the week</title></head><body>" + body + "</body></html>"
	}
	smp := legacySamples[r.Intn(len(legacySamples))]
	var body strings.Builder
	n := 2 + r.Intn(5)
	for i := 0; i < n; i++ {
		body.WriteString("<p>")
		for k := 0; k < 1+r.Intn(4); k++ {
			body.WriteString(smp.text[r.Intn(len(smp.text))] + " ")
		}
		if r.Chance(1, 2) {
			body.WriteString(fillerWords(r, 10+r.Intn(40)))
		}
		body.WriteString("</p>\n")
	}
	title := smp.text[0]
	if len(title) > 60 {
		title = title[:strings.LastIndex(title[:60], " ")]
	}
	meta := ""
	switch r.Intn(3) {
	case 0:
		meta = `<meta charset="CHARSET">`
	case 1:
		meta = `<meta http-equiv="Content-Type" content="text/html; charset=CHARSET">`
	}
	utf8Doc := r.Chance(1, 4)
	name := smp.name
	if utf8Doc {
		name = "utf-8"
	}
	doc := "<html><head>" + strings.ReplaceAll(meta, "CHARSET", name) + "<title>" + title + "</title></head><body><h1>" + title + "</h1>\n" + body.String() + "</body></html>"
	if utf8Doc {
		return doc
	}
	out, err := smp.enc.NewEncoder().String(doc)
	if err != nil {
		return doc
	}
	return out
}

func runC11(c *Ctx, idx int) {
	n := c11N(c.Tier)
	pass := 1
	j := idx
	if idx >= n {
		pass = 2
		j = 2*n - 1 - idx
	}
	if j%32 == 18 {
		runC11Alias(c, j, pass)
		return
	}
	src, opts, paging, kind := c11Input(c, j)
	R := 3
	if paging {
		R = 8
	}
	if !c.Quick() {
		R = 6
		if paging {
			R = 40
		}
	}
	if kind == "legacy-charset" {
		R = 24 // cheap documents; the encoding guess is what is being repeated
		if !c.Quick() {
			R = 60
		}
	}
	if pass == 2 {
		R = 2
	}
	c.SetInput(func() any { return map[string]any{"html": src, "options": optsDesc(opts)} })
	asciiOnly := true
	for i := 0; i < len(src); i++ {
		if src[i] >= 0x80 {
			asciiOnly = false
			break
		}
	}
	// valid UTF-8 whose text no normaliser would touch: "the tree parsed from the same bytes" is html.Parse of them
	plainUTF8 := !asciiOnly && utf8.ValidString(src) && norm.NFC.IsNormalString(src) && !strings.ContainsRune(src, '\u00ad')
	if !asciiOnly {
		c.Inc("inputs_non_ascii")
	}
	if plainUTF8 {
		c.Inc("inputs_plain_utf8")
	}
	var first resultView
	var firstHow string
	path := filepath.Join(c.scratch, fmt.Sprintf("c11.%d.html", c.Shard))
	for rep := 0; rep < R; rep++ {
		var cr callResult
		how := []string{"ApplyForReader", "Apply(dom.Parse)", "ApplyForFile"}[rep%3]
		route := rep % 3
		if route == 1 && !asciiOnly && !plainUTF8 {
			// which encoding a parser should guess for bytes that are not UTF-8 is not decided by the
			// property; such inputs go through the library's own entry points only
			how, route = "ApplyForReader", 0
		}
		switch route {
		case 0:
			cr = c.applyReader(src, opts)
		case 1:
			var doc *html.Node
			var perr error
			if plainUTF8 {
				how = "Apply(html.Parse)"
				doc, perr = html.Parse(strings.NewReader(src))
			} else {
				doc, perr = dom.Parse(strings.NewReader(src))
			}
			if perr != nil {
				c.Inc("unobservable_parse_error")
				return
			}
			cr = c.apply(doc, opts)
		default:
			os.WriteFile(path, []byte(src), 0o644)
			c.Calls(1)
			cr.Panic, cr.Stack = c.Guard(func() { cr.Res, cr.Err = distiller.ApplyForFile(path, opts) })
		}
		if cr.Panic == "" && cr.Err != nil && route != 1 && strings.Contains(cr.Err.Error(), "not detected") {
			// the byte entry point gives up on bytes that parse fine as a tree
			if doc, perr := html.Parse(strings.NewReader(src)); perr == nil {
				if ref := c.apply(doc, opts); ref.Panic == "" && ref.Err == nil {
					c.Violation("entry-points-differ:error", fmt.Sprintf("%s returns the error %q for bytes on which Apply(html.Parse(bytes)) returns a result", how, cr.Err), map[string]any{"bytes_quoted": fmt.Sprintf("%q", trunc(src, 2000))})
					return
				}
			}
		}
		if !c.usable(cr) {
			return
		}
		v := viewOf(cr.Res)
		if rep == 0 {
			first, firstHow = v, how
			continue
		}
		c.Inc("repetitions_compared")
		if d := diffViews(first, v, true); d != "" {
			sig := "nondeterministic:" + d
			if how != firstHow && rep < 3 {
				sig = "entry-points-differ:" + d
			}
			c.Violation(sig, fmt.Sprintf("%s input: run %d (%s) differs from run 1 (%s) in %s; pagination %q/%q vs %q/%q", kind, rep+1, how, firstHow, d, first.Prev, first.Next, v.Prev, v.Next),
				map[string]any{"html": src, "options": optsDesc(opts), "fields": d, "run1": first, "runN": v, "rep": rep + 1})
			return
		}
	}
	if pass == 1 && kind == "markup+unicode" {
		// The byte entry points normalise text (decomposed accents are composed, soft hyphens
		// dropped). The harness has no parser of its own to compare with for non-ASCII bytes,
		// but the same page written in the other normalisation form must give the same result:
		// a front end that skips the normalisation on some path is seen here.
		alt := unicodeBlockNFD.Replace(src)
		if alt != src {
			cr := c.applyReader(alt, opts)
			if c.usable(cr) {
				c.Inc("normalisation_pairs_compared")
				v := viewOf(cr.Res)
				if d := diffViews(first, v, true); d != "" {
					c.Violation("normalisation-forms-differ:"+d, fmt.Sprintf("the same page with its text precomposed and without soft hyphens gives a different %s through ApplyForReader", d),
						map[string]any{"html": src, "html_precomposed": alt, "fields": d, "run1": first, "runN": v})
					return
				}
			}
		}
	}
	if pass == 1 {
		if first.Next != "" || first.Prev != "" {
			c.Inc("inputs_with_pagination_result")
		}
		if strings.Contains(first.Markup, `"Title":"`) && !strings.Contains(first.Markup, `"Title":""`) {
			c.Inc("inputs_with_markup")
		}
		c.Inc("inputs_" + kind)
	}
	dg := fmt.Sprintf("%016x", hashStr(fmt.Sprintf("%v", first)))
	if first.Text != "" || first.Next != "" || first.Prev != "" {
		c.Sig(dg)
	}
	f, err := os.OpenFile(filepath.Join(c.scratch, fmt.Sprintf("c11digest.%d", pass)), os.O_APPEND|os.O_CREATE|os.O_WRONLY, 0o644)
	if err == nil {
		fmt.Fprintf(f, "%d %s %s|%s\n", j, dg, first.Prev, first.Next)
		f.Close()
	}
	c.Sample(func() any {
		return map[string]any{"input": j, "kind": kind, "options": optsDesc(opts), "html": trunc(src, 1000)}
	})
}

// runC11Alias: "regardless of earlier calls" for two pages whose (page URL, reference)
// pairs read the same when written one after the other — http://h/story + /2 and
// http://h/story/ + 2 — but resolve to different addresses. The two pages run in one
// order in the first pass and in the other order in the second pass (another worker
// process); the host is unique to the case, so nothing else in either process has seen
// these strings. Each page must give the same result in both passes.
func runC11Alias(c *Ctx, j, pass int) {
	r := c.RNG(j, 7)
	host := fmt.Sprintf("h%d.example", j)
	k := 2 + r.Intn(8)
	var urlA, refA, urlB, refB string
	switch r.Intn(3) {
	case 0: // the slash moves from the reference to the page URL
		urlA, refA = "http://"+host+"/story", fmt.Sprintf("/%d", k)
		urlB, refB = "http://"+host+"/story/", fmt.Sprintf("%d", k)
	case 1: // the cut is inside a path component
		urlA, refA = "http://"+host+"/st", fmt.Sprintf("ory/%d", k)
		urlB, refB = "http://"+host+"/story", fmt.Sprintf("/%d", k)
	default: // the cut is inside the query
		urlA, refA = "http://"+host+"/story", fmt.Sprintf("?p=%d", k)
		urlB, refB = "http://"+host+"/story?p=", fmt.Sprintf("%d", k)
	}
	doc := func(ref string) string {
		rr := c.RNG(j, 8) // the same words in both pages
		return `<html><head><title>Two pages of one site</title></head><body><article><p>` + fillerEnglish(rr, 45) + ` <a href="` + ref + `">the second part</a> ` + fillerEnglish(rr, 25) + `</p><p>` + fillerEnglish(rr, 60) +
			`</p><img src="` + ref + `" width="600" height="400"><p>` + fillerEnglish(rr, 50) + `</p><div class="pagination"><a href="` + ref + `">` + fmt.Sprint(k) + `</a></div></article></body></html>`
	}
	opts := func(u string) *distiller.Options {
		return &distiller.Options{OriginalURL: mustURL(u), PaginationAlgo: distiller.PaginationAlgo(j / 32 % 2)}
	}
	srcA, srcB := doc(refA), doc(refB)
	c.SetInput(func() any {
		return map[string]any{"page_a": urlA, "html_a": srcA, "page_b": urlB, "html_b": srcB, "order": map[int]string{1: "a, b", 2: "b, a"}[pass]}
	})
	var vA, vB resultView
	run := func(src, u string, into *resultView) bool {
		cr := c.applyReader(src, opts(u))
		if !c.usable(cr) {
			return false
		}
		*into = viewOf(cr.Res)
		return true
	}
	ok := false
	if pass == 1 {
		ok = run(srcA, urlA, &vA) && run(srcB, urlB, &vB)
	} else {
		ok = run(srcB, urlB, &vB) && run(srcA, urlA, &vA)
	}
	if !ok {
		return
	}
	if pass == 1 {
		c.Inc("alias_pairs")
		if strings.Contains(vA.HTML, `href="`) && strings.Contains(vB.HTML, `href="`) && vA.HTML != vB.HTML {
			c.Inc("alias_pairs_with_links_that_differ")
		}
	}
	dg := fmt.Sprintf("%016x", hashStr(fmt.Sprintf("%v|%v", vA, vB)))
	c.Sig(dg)
	f, err := os.OpenFile(filepath.Join(c.scratch, fmt.Sprintf("c11digest.%d", pass)), os.O_APPEND|os.O_CREATE|os.O_WRONLY, 0o644)
	if err == nil {
		fmt.Fprintf(f, "%d %s %s|%s|%s|%s\n", j, dg, vA.Prev, vA.Next, vB.Prev, vB.Next)
		f.Close()
	}
}

func c11Post(p *Parent) {
	read := func(pass int) map[int]string {
		m := map[int]string{}
		f, err := os.Open(filepath.Join(p.scratch, fmt.Sprintf("c11digest.%d", pass)))
		if err != nil {
			return m
		}
		defer f.Close()
		sc := bufio.NewScanner(f)
		sc.Buffer(make([]byte, 1<<20), 1<<20)
		for sc.Scan() {
			parts := strings.SplitN(sc.Text(), " ", 2)
			if len(parts) == 2 {
				if j, err := strconv.Atoi(parts[0]); err == nil {
					m[j] = parts[1]
				}
			}
		}
		return m
	}
	a, b := read(1), read(2)
	n := c11N(p.Tier)
	compared := int64(0)
	for j, da := range a {
		db, ok := b[j]
		if !ok {
			continue
		}
		compared++
		if da != db {
			idx := j
			_ = n
			p.absorb(&msg{T: "v", Idx: idx, Sig: "cross-process-differs", Msg: fmt.Sprintf("input %d gives digest/pagination %q in one worker process and %q in another (different history and hash seed)", j, da, db)})
		}
	}
	p.mu.Lock()
	p.Counters["cross_process_pairs_compared"] += compared
	p.mu.Unlock()
}
