#!/usr/bin/env python3
"""Regenerates /verif/MANIFEST.json from the table below (kept in one place so
that the manifest stays consistent with what the harness implements)."""
import json, os, sys

VERIF = os.path.dirname(os.path.dirname(os.path.abspath(__file__)))

# property id -> (technique, level text, level note, design ref)
CHECKS = {}

def add(pid, technique, text, note, ref):
    CHECKS[pid] = (technique, text, note, ref)

add("C02", "runtime monitor: token-ledger oracle over generated pages",
    "Every word of every generated page is a unique token whose visibility is known by construction; the monitor observes Result.Text and the text nodes of Result.Node of each execution and flags invented, non-visible, duplicated or reordered tokens. Held on the executions produced (thousands of pages, >1M emitted tokens per quick run), not a proof.",
    "Trusted: the generator's ledger (what is visible by construction), the harness tokeniser, x/net/html. Reach is limited to the block kinds the grammar produces.",
    "DESIGN.md §5 C02")
add("C03", "runtime monitor: per-paragraph all-or-nothing oracle + enumerated child sequences",
    "For every simple paragraph of every generated page the number of its tokens found in Result.Text must be 0 or all; child sequences up to length 4 over {text, br, inline, link, js-link(1 text), js-link(other)} are enumerated at five placements. Held on the executions produced.",
    "Trusted: ledger paragraph membership, tokeniser. Paragraphs whose inline elements carry attributes are outside the statement and not generated.",
    "DESIGN.md §5 C03")

NOT_YET = {}

def main():
    props = [json.loads(l) for l in open(os.path.join(VERIF, "properties.jsonl"))]
    checks = []
    na = []
    for p in props:
        pid = p["id"]
        if pid in CHECKS:
            tech, text, note, ref = CHECKS[pid]
            checks.append({
                "property_id": pid,
                "quick_cmd": f"./check {pid} quick",
                "thorough_cmd": f"./check {pid} thorough",
                "evidence_file": f"/verif/evidence/{pid}.json",
                "replay_cmd_template": "./check --replay {path}",
                "engine": "vcheck",
                "level_claimed": {"category": "exploration", "text": text, "design_ref": ref},
                "level_note": note,
                "technique": tech,
            })
        else:
            na.append({"property_id": pid, "reason": NOT_YET.get(pid, "monitor not built yet in this session (runtime monitoring applies; see DESIGN.md §5); not claimed until its check exists and is silent on the unchanged tree")})
    m = {
        "version": 1,
        "setup_cmd": "./check --build",
        "hooks": {
            "guard": "verif",
            "enable": "no hook is committed to /repo: every monitor observes the public API; the only white-box probe (C12 globals fingerprint) is generated at check time and injected with `go build -tags verif -overlay`",
            "baseline_off_cmd": "cd /repo && GOFLAGS=-mod=mod GOPROXY=off GOSUMDB=off GOTOOLCHAIN=local go test -json -vet=off -count=1 -timeout 25m ./...",
            "source_commits": [],
            "add_only": True,
        },
        "engines": [{
            "name": "vcheck", "path": "/verif/harness",
            "serves_properties": sorted(CHECKS),
            "kind_free_text": "Go harness (module replace => /repo): generators with ground-truth ledgers, reference/metamorphic oracles, snapshot monitors, worker processes with CPU watchdog; -race build for C12",
        }],
        "checks": checks,
        "not_applicable": na,
        "notes": "All checks rebuild the harness against /repo's working tree. VERIF_SEED selects the case lists. Known findings: /verif/known_findings.txt.",
    }
    json.dump(m, open(os.path.join(VERIF, "MANIFEST.json"), "w"), indent=1)
    print("claimed:", sorted(CHECKS), "not claimed:", [x["property_id"] for x in na])

if __name__ == "__main__":
    main()
