#!/usr/bin/env python3
"""Regenerates /verif/MANIFEST.json from the table below (kept in one place so
that the manifest stays consistent with what the harness implements)."""
import json, os, sys

VERIF = os.path.dirname(os.path.dirname(os.path.abspath(__file__)))

# property id -> (technique, level text, level note, design ref)
CHECKS = {}

def add(pid, technique, text, note, ref):
    CHECKS[pid] = (technique, text, note, ref)

add("C01", "runtime monitor: hostile-workload totality oracle, worker processes with CPU watchdog",
    "Every entry point is driven with tag-soup trees, every/sampled element of generated pages as attached and detached root, 24 kinds of hand-built roots, structure-aware byte mutations through ApplyForReader/ApplyForFile, hostile pagers, an insertion-mode stress family of the HTML parser through seven text-parsing routes, byte streams in 14 non-UTF-8 encodings, boundary addresses (4 hosts x 48 path shapes) in every element that takes a URL apart, conventional pagers in all decorations, size stress (incl. flat runs of 1.4 million siblings under a 250 MB stack limit) and all option shapes; each call runs under recover() inside a worker process whose death, and whose CPU consumption per case (60 s bound), the parent observes. Oracle: no panic, no process death, bounded CPU, err != nil or Result.Node is a <div>. Held on ~50k (quick) / ~1.2M (thorough) calls; termination is decided as bounded progress only. Four open known findings (one root cause: an endless loop in html.Parse of the pinned golang.org/x/net v0.10.0, signed by the call site of the hang) are listed in known_findings.txt and printed as KNOWN-FINDING lines.",
    "Trusted: Go runtime's recover/rusage, the journal that names the case in flight. Inputs are <= ~1 MB and <= 2000 nesting levels (flat runs <= 5.6 MB); cyclic graphs and nil roots are outside the contract.",
    "DESIGN.md §5 C01")
add("C02", "runtime monitor: token-ledger oracle over generated pages",
    "Every word of every generated page is a unique token whose visibility is known by construction; the monitor observes Result.Text and the text nodes of Result.Node of each execution and flags invented, non-visible, duplicated or reordered tokens. Held on the executions produced (thousands of pages, >1M emitted tokens per quick run), not a proof.",
    "Trusted: the generator's ledger (what is visible by construction), the harness tokeniser, x/net/html. Reach is limited to the block kinds the grammar produces.",
    "DESIGN.md §5 C02")
add("C03", "runtime monitor: per-paragraph all-or-nothing oracle + enumerated child sequences",
    "For every simple paragraph of every generated page the number of its tokens found in Result.Text must be 0 or all; child sequences up to length 4 over {text, br, inline, link, js-link(1 text), js-link(other)} are enumerated at five placements. Held on the executions produced.",
    "Trusted: ledger paragraph membership, tokeniser. Paragraphs whose inline elements carry attributes are outside the statement and not generated.",
    "DESIGN.md §5 C03")
add("C04", "runtime monitor: token-kind leak oracle over a carrier x placement grid",
    "Tokens are written into every non-rendered carrier (script, style, comment, head, hidden, display:none, visibility:hidden/collapse, aria-hidden, hidden figcaption) and every skipped carrier (form controls, noscript, svg, object, embed, applet, unrecognised iframe) at 10 placements (grid every run) and at random places of random pages; any such token in Result.Text or in Result.Node outside placeholders is a violation, with the stated exemption for skipped carriers inside a data table or figure. Held on the executions produced.",
    "Trusted: ledger token kinds and the 'emitted while a table/figure was open' exemption flag; tokeniser.",
    "DESIGN.md §5 C04")
add("C05", "runtime monitor: walk of the distilled tree with attribute-noise stamped inputs",
    "Every generated element carries id/class/style/onclick/onload/data-*/unknown attributes with unique values; the monitor walks every element and attribute of Result.Node and flags script/style elements, on* attributes, id/class/style and data-* outside the placeholder wrapper (which may carry exactly class, data-type, data-id). Held on ~250k elements per quick run over all output paths (text, lists, images, pictures, figures, captions, videos, tables, placeholders).",
    "Trusted: the walk; the definition of the placeholder wrapper as div.embed-placeholder.",
    "DESIGN.md §5 C05")
add("C06", "runtime monitor: URL ledger with expectations by construction (independent RFC 3986 resolution)",
    "Every URL-carrying attribute of every generated page is a reference of a known form with a unique id; each URL found in Result.Node (outside placeholders) and in ContentImages is matched by id against the value expected by construction for 5 page URLs and 26 reference forms (relative, padded, escaped, case-variant schemes, decomposed/soft-hyphen, raw UTF-8). Held on ~50k URLs per quick run.",
    "Trusted: the harness' resolver for exactly the generated forms; ids never collide; srcset candidates contain no commas.",
    "DESIGN.md §5 C06")
add("C07", "runtime monitor: ancestor-chain and table-completeness oracle against the parsed source",
    "For each retained token the chain of ul/ol/li/blockquote/pre ancestors in Result.Node is compared with the chain in the harness' own parse of the source; each retained data table is compared row by row and cell by cell with the ledger. Held on ~600k nested retained tokens and ~2.8k retained tables per quick run.",
    "Trusted: the shared x/net/html parse; ledger of table cells; a table is identified by the unique token of its first header cell.",
    "DESIGN.md §5 C07")
add("C08", "runtime monitor: media-retention iff-oracle from the ledger",
    "For each media element (img, picture, lazy img, figure, video, youtube/vimeo iframe, twitter quote, data table; also inside paragraphs, list items, layout cells) 'present in Result.Node' must equal 'the last text-block token written before it is in Result.Text', with at most one promoted img/figure per page. Held on ~35k media elements per quick run (kept, dropped and lead promotions all observed).",
    "Trusted: ledger's notion of the preceding text block (captions, cells, embed text, hidden/skipped carriers are not text blocks); titles match no block.",
    "DESIGN.md §5 C08")
add("C09", "runtime monitor: cross-view agreement oracles (Text vs HTML walk, ContentImages subsequence, WordCount recount)",
    "Token sequence of Text equals that of the visible text of Result.Node (harness' own visibility walk); ContentImages is a subsequence of the src/srcset list of img/source elements in document order; on text-only pages with punctuation attached/detached WordCount equals the recount of Text. Held on the executions produced.",
    "Trusted: the harness' visibility walk (skips script/style, hidden, placeholders) and word definition (whitespace-separated items containing an ASCII alphanumeric).",
    "DESIGN.md §5 C09")
add("C10", "runtime monitor: deep before/after snapshots of caller-owned trees, Options and URLs over call histories; loopback HTTP for ApplyForURL",
    "A deep snapshot (node identity, type, atom, data, namespace, attributes, five links, from the top-most ancestor) of the caller's tree and of Options/*url.URL is compared after every call of a 5-call history per page (document / attached / detached roots, shared Options and URL), for Apply, ApplyForReader, ApplyForFile and ApplyForURL (in-process HTTP server on 127.0.0.1). Held on ~15k tree comparisons and ~20k options comparisons per quick run.",
    "Trusted: the snapshot covers everything html.Node exposes; loopback networking works in the sandbox.",
    "DESIGN.md §5 C10")
add("C11", "runtime monitor: repeated-run and cross-process result equality (map-order / history independence), entry-point equivalence",
    "Each input runs R times in one process (R=8/40 for pagination-bearing inputs) alternating the three entry points, and once more in another worker process in reverse order; all result fields except TimingInfo must be equal; byte inputs in legacy charsets and sparse UTF-8 are repeated 24/60 times (charset guess), a page in NFD and in NFC form must give the same result through the byte entry points, and pairs of pages whose page URL + reference concatenate to the same text run in both orders in two processes. Probabilistic per input for map-order dependence (bounds in DESIGN.md); held on ~20k repetition comparisons and ~3k cross-process pairs per quick run.",
    "Trusted: Go re-randomises map iteration per range statement; field-wise comparison with nil = empty slice.",
    "DESIGN.md §5 C11")
add("C12", "Go race detector (-race build, halt_on_error=0, log scan) + isolation oracle (concurrent result = sequential result) with measured overlap",
    "16/64 goroutines released behind a barrier call Apply on different documents, one shared tree, shared Options/URL, sub-element roots and all log-flag sets, with GOMAXPROCS 2/4/16; the concurrent phase runs first (so it is the first to touch any state), the sequential reference afterwards. Race reports are counted and de-duplicated from the detector's log; a runtime 'concurrent map' fatal error is caught as worker death. Evidence reports overlapping call pairs actually observed. Held on the interleavings produced only.",
    "Trusted: the race detector (happens-before based; sees only executed accesses). Interleavings are not enumerated.",
    "DESIGN.md §5 C12")
add("C13", "runtime monitor: full option grid per document with equality classes",
    "For each document the full grid LogFlags 0..31 x 2 algorithms x SkipPagination x URL nil/given (256 calls) runs on one parsed tree; contents must be equal within a URL value, PaginationInfo equal across log flags and empty when skipped or URL-less, Result.URL as supplied. Exhaustive over the option grid for each sampled document; documents are sampled.",
    "Trusted: field-wise comparison; log output is discarded.",
    "DESIGN.md §5 C13")
add("C14", "runtime monitor: metamorphic source-separation oracle + by-construction reference model of the precedence rule",
    "Oracle A: page with all three markup sources vs the same page with one source each: MarkupInfo(all) must be the precedence-combination. Oracle B: canonical pages enumerating 16 required-property subsets x 8 source-presence subsets x og:type x opt-out with unique-token values and the expected MarkupInfo computed by the harness' own model. Held on ~30k pages per quick run, all three article branches, opt-out and OG-disqualified pages observed.",
    "Trusted: oracle A trusts each parser in isolation; oracle B trusts the harness' model of what a well-formed source provides.",
    "DESIGN.md §5 C14")
add("C15", "runtime monitor: title provenance oracle + two-step repeat-suppression check",
    "Generated <title> strings (1-4 parts, 14 separators, lengths 0-300) x h1/h2 x markup titles: Title must equal the markup title, else be the title text, a contiguous part of it or the first h1; exact for 15..150 characters without separator characters; a block whose text is exactly the learnt Title must not be emitted (count-based, so other blocks sharing words do not confuse it). Held on 30k titles per quick run (title attributes, template decoys, SVG tooltips, noscript fallbacks in the h1, ten forms of the repeated block).",
    "Trusted: entity decoding of the generator; conservative reading of 'separator pattern' for the exactness clause.",
    "DESIGN.md §5 C15")
add("C16", "runtime monitor: pagination-link validity oracle over hostile pagers (anchor set computed independently)",
    "Hostile pagers (30 dangerous href shapes, gaps, duplicates, descending and calendar runs) x 15 page URLs x both algorithms, one case in four with an element of the page as the root given to Apply (then only anchors below it count); every non-empty Next/PrevPage must parse, be http(s), same host, and equal (canonically) the resolution against the real page URL of some anchor of the document. Held on ~85k non-empty links per quick run.",
    "Trusted: canonical form (case of scheme/host, trailing slash, fragment ignored); the harness' anchor resolution with net/url.",
    "DESIGN.md §5 C16")
add("C17", "runtime monitor: exhaustive enumeration of the conventional-pager grid against links expected by construction",
    "N in 2..12 x k x 11 URL families under 2 base paths x page URL with/without fragment x 3 href forms x trailing slash x 6 separators x 6 current-page decorations (page-number) and x 6 label pairs x with/without numbers (prev/next): 144,144 pagers in quick (wrapper, origin and host letter case rotate), x 6 wrappers x noise in thorough; expected next/prev computed by resolving the generated href. Exhaustive over the stated grid.",
    "Trusted: canonical URL comparison. Nothing is demanded of a prev/next side without a labelled anchor.",
    "DESIGN.md §5 C17")
add("C18", "runtime monitor: reference implementation of the cascade vs black-box observation (<table> in output), exhaustive grid in thorough",
    "Tables are generated from feature vectors; the reference cascade (30 lines) predicts data/layout; observation is whether the tokens of the table under test sit inside a <table> element of Result.Node (another table may precede it in the document). thorough enumerates the full cross product (22.2M vectors incl. placements), quick covers all single settings, all pairs of settings of two dimensions and a biased sample. Every rule of the cascade is observed deciding.",
    "Trusted: the reference implementation of the stated cascade; the observer (a layout table never serialises as <table> outside list items, which are not generated).",
    "DESIGN.md §5 C18")
add("C19", "runtime monitor: host/path/carrier grid with true host and id known by construction",
    "33 hosts (allow-listed, subdomains, look-alikes incl. letters that Unicode case mapping folds onto ASCII, userinfo tricks, case/port/trailing dot) x 23 path shapes x 8 source forms x 12 carriers = 72,864 cases every run: a placeholder only for a truly allow-listed host, with the service as data-type and the URL's id as data-id; no bare iframe survives. Exhaustive over the stated grid in quick; thorough repeats it inside random articles.",
    "Trusted: the harness' notion of the true host and of 'the id taken from the URL' (last path segment, the segment after status for tweets, the v parameter for YouTube watch pages; data-tweet-id for rendered tweets).",
    "DESIGN.md §5 C19")
add("C20", "runtime monitor: metamorphic triple (page, marked subtrees deleted, markers neutralised) with feedback-steered threshold sweep",
    "For each page W = WordCount of the deleted variant decides which variant the page must equal; W is steered by feedback to hit 497..503 exactly and drawn from [250,750] otherwise; only triples where the two variants differ count as non-trivial. Held on 8k triples per quick run with ~400 triples at each W in 497..503; marked subtrees also inside figures, pictures, tweet quotes, table cells, bylines, content-less wrappers and scripted links.",
    "Trusted: equality on Title/Text/HTML/WordCount/ContentImages; markers are restricted to those that feed only the unlikely test.",
    "DESIGN.md §5 C20")

NOT_YET = {}

def main():
    props = [json.loads(l) for l in open(os.path.join(VERIF, "properties.jsonl"))]
    checks = []
    na = []
    for p in props:
        pid = p["id"]
        if pid in CHECKS:
            tech, text, note, ref = CHECKS[pid]
            checks.append({
                "property_id": pid,
                "quick_cmd": f"./check {pid} quick",
                "thorough_cmd": f"./check {pid} thorough",
                "evidence_file": f"/verif/evidence/{pid}.json",
                "replay_cmd_template": "./check --replay {path}",
                "engine": "vcheck",
                "level_claimed": {"category": "exploration", "text": text, "design_ref": ref},
                "level_note": note,
                "technique": tech,
            })
        else:
            na.append({"property_id": pid, "reason": NOT_YET.get(pid, "monitor not built yet in this session (runtime monitoring applies; see DESIGN.md §5); not claimed until its check exists and is silent on the unchanged tree")})
    m = {
        "version": 1,
        "setup_cmd": "./check --build",
        "hooks": {
            "guard": "verif",
            "enable": "no hook is committed to /repo: every monitor observes the public API; the only white-box probe (C12 globals fingerprint) is generated at check time and injected with `go build -tags verif -overlay`",
            "baseline_off_cmd": "cd /repo && GOFLAGS=-mod=mod GOPROXY=off GOSUMDB=off GOTOOLCHAIN=local go test -json -vet=off -count=1 -timeout 25m ./...",
            "source_commits": [],
            "add_only": True,
        },
        "engines": [{
            "name": "vcheck", "path": "/verif/harness",
            "serves_properties": sorted(CHECKS),
            "kind_free_text": "Go harness (module replace => /repo): generators with ground-truth ledgers, reference/metamorphic oracles, snapshot monitors, worker processes with CPU watchdog; -race build for C12",
        }],
        "checks": checks,
        "not_applicable": na,
        "notes": "All checks rebuild the harness against /repo's working tree. VERIF_SEED selects the case lists. Known findings: /verif/known_findings.txt.",
    }
    json.dump(m, open(os.path.join(VERIF, "MANIFEST.json"), "w"), indent=1)
    print("claimed:", sorted(CHECKS), "not claimed:", [x["property_id"] for x in na])

if __name__ == "__main__":
    main()
