#!/bin/bash
# usage: sweep.sh <tier> <seeds...>   runs every check at each seed, prints a summary line each
tier="$1"; shift
for seed in "$@"; do
  for p in C01 C02 C03 C04 C05 C06 C07 C08 C09 C10 C11 C12 C13 C14 C15 C16 C17 C18 C19 C20; do
    s=$(date +%s)
    out=$(VERIF_SEED=$seed /verif/check $p $tier 2>&1); rc=$?
    e=$(date +%s)
    echo "seed=$seed $p rc=$rc t=$((e-s))s $(echo "$out" | grep -E '^(HELD|INCONCLUSIVE|VIOLATION)' | head -2 | tr '\n' ' ')"
  done
done
