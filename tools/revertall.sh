#!/bin/bash
# For every "fix:" commit of /repo: revert it on a scratch worktree and run the checks of the
# properties it was recorded for (known_findings.txt); prints one line per commit.
cd /repo || exit 2
for sha in $(git log --format=%h --grep='^fix:' --reverse); do
	props=$(grep "^fixed:.* $sha " /verif/known_findings.txt | grep -o 'property=C[0-9]*' | cut -d= -f2 | sort -u | tr '\n' ' ')
	wt=/tmp/sc/rev-$sha-$$
	git worktree add -q --detach "$wt" HEAD || continue
	if (cd "$wt" && git show "$sha" | git apply -R 2>/dev/null); then
		line="$sha reverted;"
		for p in $props; do
			out=$(VERIF_REPO="$wt" VERIF_OUT="$wt-out" /verif/check "$p" quick 2>&1)
			line="$line $p:$(echo "$out" | grep -c '^VIOLATION')viol$(echo "$out" | grep -q 'BUILD FAILED' && echo '(BUILD FAILED)')$(echo "$out" | grep -q '^INCONCLUSIVE' && echo '(INCONCLUSIVE)')"
		done
		echo "$line ($(git log --format=%s -1 $sha | cut -c1-60))"
	else
		echo "$sha does not revert cleanly on HEAD (later commits touch the same lines); props: $props"
	fi
	git worktree remove --force "$wt" 2>/dev/null; rm -rf "$wt" "$wt-out"
done
