#!/bin/bash
# usage: seedcheck.sh <dir with patch<n>.diff demo<n>_test.go> <n> <tier> Cxx [Cyy ...]
# 1. confirms the seeded change: applies to a clean scratch worktree of /repo, the
#    repository's own suite passes with it, the demonstration fails with it and
#    passes without it;
# 2. runs the named checks against the scratch worktree (never against /repo).
set -u
dir="$1"; n="$2"; tier="$3"; shift 3
export GOFLAGS=-mod=mod GOPROXY=off GOSUMDB=off GOTOOLCHAIN=local
name=$(basename "$dir")-$n-$$
wt=/tmp/sc/$name
mkdir -p /tmp/sc
git -C /repo worktree add -q --detach "$wt" HEAD || exit 2
cleanup() { git -C /repo worktree remove --force "$wt" 2>/dev/null; rm -rf "$wt" "/tmp/sc/$name-out"; }
trap cleanup EXIT
cd "$wt"
cp "$dir/demo${n}_test.go" ./zz_demo_test.go
if go test -vet=off -count=1 -run . . >/tmp/sc/$name.demo0 2>&1; then echo "demo passes on clean tree: yes"; else echo "demo passes on clean tree: NO"; tail -5 /tmp/sc/$name.demo0; fi
rm -f zz_demo_test.go
if ! git apply "$dir/patch${n}.diff"; then echo "PATCH DOES NOT APPLY"; exit 2; fi
if go build ./... && go test -vet=off -count=1 ./... >/tmp/sc/$name.suite 2>&1; then echo "suite passes with change: yes"; else echo "suite passes with change: NO"; grep -E "FAIL|panic" /tmp/sc/$name.suite | head -5; fi
cp "$dir/demo${n}_test.go" ./zz_demo_test.go
if go test -vet=off -count=1 -run . . >/tmp/sc/$name.demo1 2>&1; then echo "demo fails with change: NO (it passes)"; else echo "demo fails with change: yes"; fi
rm -f zz_demo_test.go
for p in "$@"; do
	out=$(VERIF_REPO="$wt" VERIF_OUT="/tmp/sc/$name-out" /verif/check "$p" "$tier" 2>&1); rc=$?
	echo "== $p rc=$rc: $(echo "$out" | grep -c '^VIOLATION') violation lines; $(echo "$out" | grep -E '^INCONCLUSIVE|BUILD FAILED' | head -2) sigs: $(echo "$out" | grep -o 'sig=[^ ]*' | sort | uniq -c | sort -rn | head -6 | tr '\n' ';')"
done
rm -f /tmp/sc/$name.demo0 /tmp/sc/$name.demo1 /tmp/sc/$name.suite
