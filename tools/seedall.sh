#!/bin/bash
# usage: seedall.sh [tier]  — runs every seeded change under /verif/seeded against the
# check of the property it was written for, and prints one line each.
tier="${1:-quick}"
for d in /verif/seeded/*/; do
	id=$(basename "$d"); prop=${id%%-*}
	if grep -q '"obsolete"' "$d/meta.json"; then echo "$id obsolete (masked by a later fix commit; see meta.json)"; continue; fi
	mkdir -p /tmp/sa/$id; cp "$d/patch.diff" /tmp/sa/$id/patch1.diff; cp "$d/demo_test.go" /tmp/sa/$id/demo1_test.go
	extra=$(python3 -c "import json;print(' '.join(json.load(open('$d/meta.json')).get('also_run',[])))" 2>/dev/null)
	out=$(/verif/tools/seedcheck.sh /tmp/sa/$id 1 "$tier" $prop $extra 2>&1 | grep -v "^WARNING")
	conf=$(echo "$out" | grep -c ": yes")
	echo "$id confirmed=$conf/3 $(echo "$out" | grep '^==' | cut -c1-260 | tr '\n' ' ')"
	rm -rf /tmp/sa/$id
done
