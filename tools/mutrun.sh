#!/bin/bash
# usage: mutrun.sh <patch|revert:SHA> <tier> Cxx [Cyy...]
# Applies a change to /repo, runs the named checks, and restores /repo.
set -u
what="$1"; tier="$2"; shift 2
cd /repo || exit 2
if [ -n "$(git status --porcelain --untracked-files=no)" ]; then echo "/repo not clean"; exit 2; fi
restore() { git -C /repo checkout -- . ; git -C /repo clean -fdq -- . >/dev/null 2>&1; }
trap restore EXIT
case "$what" in
revert:*) git show "${what#revert:}" | git apply -R || exit 2 ;;
*) git apply "$what" || exit 2 ;;
esac
for p in "$@"; do
	out=$(/verif/check "$p" "$tier" 2>&1); rc=$?
	echo "== $p rc=$rc: $(echo "$out" | grep -c '^VIOLATION') violation lines; sigs: $(echo "$out" | grep -o 'sig=[^ ]*' | sort | uniq -c | head -5 | tr '\n' ';')"
done
