#!/usr/bin/env python3
"""usage: mkcatch.py <seedall log>  — writes /verif/seeded/CATCH.md (one row per seeded change)
and updates detected_by in each meta.json."""
KNOWN=[w[4:] for ln in open('/verif/known_findings.txt') if ln.startswith('finding:') for w in ln.split() if w.startswith('sig=')]
import sys, re, json, os
rows=[]
for ln in open(sys.argv[1], errors='replace'):
    m=re.match(r'^(C\d\d-\d+) confirmed=(\d)/3 (.*)$', ln.strip())
    if not m: continue
    sid, conf, rest = m.groups()
    det=[]
    for chk, rc, nv, sigs in re.findall(r'== (C\d\d) rc=(\d+): (\d+) violation lines;\s*(?:INCONCLUSIVE[^s]*)?sigs:(.*?)(?= == |$)', rest):
        s=re.findall(r'sig=([^;\s]+)', sigs)
        s=[x for x in s if not any(x.startswith(k[:45]) for k in KNOWN)]  # the listed known findings are not what catches a change
        if int(nv)>0: det.append((chk, s[:3]))
    rows.append((sid, conf, det))
out=['# Seeded changes and the checks that catch them','',
     'Produced by `tools/seedall.sh quick` + `tools/mkcatch.py` (each change applied to a scratch worktree of /repo HEAD; `confirmed` = patch applies, the repository\'s own suite passes with it, the demonstration fails with it and passes without it).','',
     '| id | confirmed | what it needs to manifest | caught by (violation signatures) |','|---|---|---|---|']
for sid, conf, det in sorted(rows):
    mp='/verif/seeded/%s/meta.json'%sid
    needs=''
    if os.path.exists(mp):
        m=json.load(open(mp)); needs=m.get('needs_to_manifest','')
        m['detected_by']=[c for c,_ in det]; m['confirmed_points']=conf+'/3'
        json.dump(m, open(mp,'w'), indent=1)
    d='; '.join('%s: %s'%(c, ', '.join('`%s`'%x for x in s)) for c,s in det) or '**not caught**'
    out.append('| %s | %s/3 | %s | %s |'%(sid, conf, needs.replace('|','\\|'), d.replace('|','\\|')))
open('/verif/seeded/CATCH.md','w').write('\n'.join(out)+'\n')
print(len(rows), 'rows;', sum(1 for r in rows if not r[2]), 'not caught')
